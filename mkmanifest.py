#!/usr/bin/env python3
"""Regenerates MANIFEST.json from registry.py (run after editing the registry)."""
import json, os, subprocess, sys
sys.path.insert(0, os.path.dirname(os.path.abspath(__file__)))
import registry

ALL = ["C%02d" % i for i in range(1, 21)]
hook_commits = subprocess.run(["git", "-C", "/repo", "log", "--format=%H %s"], capture_output=True, text=True).stdout.splitlines()
hook_commits = [l.split()[0] for l in hook_commits if "verif hooks" in l]

checks = []
for pid in ALL:
    if pid not in registry.PROPS:
        continue
    spec = registry.PROPS[pid]
    checks.append({
        "property_id": pid,
        "quick_cmd": "python3 check.py %s --tier quick" % pid,
        "thorough_cmd": "python3 check.py %s --tier thorough" % pid,
        "evidence_file": "/verif/evidence/%s.json" % pid,
        "replay_cmd_template": "python3 check.py --replay {path}",
        "engine": spec.get("engine", "kani-step+hist"),
        "level_claimed": {
            "category": "model_checking",
            "text": spec.get("level_text", registry.DEFAULT_LEVEL_TEXT),
            "design_ref": spec.get("design_ref", "DESIGN.md section 6 / " + pid),
        },
        "level_note": spec.get("level_note", registry.DEFAULT_LEVEL_NOTE),
        "technique": spec.get("technique", registry.DEFAULT_TECHNIQUE),
    })

na = [{"property_id": p, "reason": registry.NOT_APPLICABLE.get(p, "check not built yet in this revision of /verif (work in progress; the design in DESIGN.md covers it)")}
      for p in ALL if p not in registry.PROPS]

m = {
    "version": 1,
    "setup_cmd": "python3 setup.py",
    "hooks": {
        "guard": "--cfg futures_intrusive_verif",
        "enable": "RUSTFLAGS='--cfg futures_intrusive_verif' FI_VERIF_INC=/verif/harness/inc cargo kani|build (the hook lines include!() the harness sources from /verif/harness/inc)",
        "baseline_off_cmd": "cd /repo && cargo test --workspace --no-fail-fast --offline",
        "source_commits": hook_commits,
        "add_only": True,
    },
    "engines": [
        {"name": "kani-step+hist", "path": "/verif/check.py + /verif/harness/inc/*.rs",
         "serves_properties": [c["property_id"] for c in checks if c["engine"] == "kani-step+hist"],
         "kind_free_text": "Kani 0.68/CBMC 6.11/CaDiCaL over the real crate: E-STEP = one real operation from a symbolic pre-state under a representation invariant (inductive, unbounded history length, K live futures); E-HIST = symbolic operation scripts through the public API against a reference model (bounded N), counterexamples replayed natively by /verif/replay"},
        {"name": "trait-smt", "path": "/verif/c16/",
         "serves_properties": [c["property_id"] for c in checks if c["engine"] == "trait-smt"],
         "kind_free_text": "rustdoc-JSON impl table of /repo -> boolean trait-membership formulas decided by z3 and cross-checked by cvc5; counterexamples replayed by cargo check of a generated probe crate"},
    ],
    "checks": checks,
    "not_applicable": na,
    "notes": "Solver-based checking of the real code only (Kani/CBMC SAT queries over the compiled crate; z3/cvc5 for C16). Exit codes: 0 held, 1 VIOLATION (natively replayed), 2 inconclusive. See DESIGN.md.",
}
# sanity: every registered harness name exists in the harness sources
import glob, re
_src = "".join(open(f).read() for f in glob.glob(os.path.join(os.path.dirname(os.path.abspath(__file__)), "harness", "inc", "*.rs")))
_names = set(re.findall(r"fn (\w+)\s*\(", _src)) | set(re.findall(r"(?:hist_proof|step_proof|life_proof|array_step|c18_proof)!\(\s*(\w+)\s*,", _src))
for _pid, _spec in registry.PROPS.items():
    for _tier in ("quick", "thorough"):
        for _j in _spec.get(_tier, []):
            if _j["harness"].split("::")[-1] not in _names:
                print("WARNING: %s/%s registers unknown harness %s" % (_pid, _tier, _j["harness"]))

json.dump(m, open(os.path.join(os.path.dirname(os.path.abspath(__file__)), "MANIFEST.json"), "w"), indent=1)
print("MANIFEST.json: %d checks, %d not_applicable" % (len(checks), len(na)))

"""Registry of solver jobs per property and tier (DESIGN.md sections 5-6)."""

PALL = 0xFFFFFFFF


def P(n):
    return 1 << n


GLOBAL_ASSUMPTIONS = [
    "Kani verifies monomorphic instances: MutexType = NoopLock (Local* flavours) and CheckLock (a RawMutex+Sync "
    "over Cell<bool> that asserts the locking discipline); parking_lot::RawMutex itself is trusted, not modelled",
    "no real threads: every thread schedule of API calls on the Sync flavours is reduced to a sequential interleaving "
    "of the same calls, justified by 'all primitive state lives inside one lock_api::Mutex critical section per call' "
    "(DESIGN 5.3); weak-memory effects of the handle counters and interleavings inside multi-section operations are "
    "outside the claim",
    "payload T = u8 or a drop-counting Tag(u8); wakers are non-allocating counting RawWakers whose wake() does not "
    "re-enter the primitive",
    "contract-respecting histories only: no poll after completion, no mem::forget of a pinned pending future, "
    "no try_send on an unbuffered channel",
    "E-STEP harnesses assume the representation invariant written in /verif/harness/inc/<module>.rs; its parts are "
    "owned by different properties (assume-guarantee): the unbounded-history reading of one property relies on the "
    "other properties' step checks passing as well",
]


def H(mod, name, role, **kw):
    d = {"harness": mod + "::" + name, "role": role}
    d.update(kw)
    return d


MUTEX = "sync::mutex::verif_mutex::proofs"

MUTEX_FUNCS = [
    "sync::mutex::MutexState::try_lock", "sync::mutex::MutexState::try_lock_sync", "sync::mutex::MutexState::unlock",
    "sync::mutex::MutexState::return_last_waiter", "sync::mutex::MutexState::remove_waiter",
    "sync::mutex::MutexState::force_remove_waiter", "<GenericMutexLockFuture as Future>::poll",
    "<GenericMutexLockFuture as Drop>::drop", "<GenericMutexGuard as Drop>::drop", "GenericMutex::try_lock",
    "GenericMutex::lock", "GenericMutex::is_locked", "utils::update_waker_ref",
    "LinkedList::add_front", "LinkedList::remove", "LinkedList::remove_last", "LinkedList::peek_last_mut",
    "LinkedList::is_empty",
]


def mutex_prop(pid, pbit, fair_only=False):
    cfg = 1 if fair_only else 2
    tag = pid.lower()
    quick = [
        H(MUTEX, "step_%s" % tag, "step", est_s=40,
          bounds="E-STEP: K=3 lock futures in arbitrary poll states/queue order/stored wakers, 1 arbitrary operation, %s" % (
              "fair" if fair_only else "both fairness modes")),
        H(MUTEX, "step_base", "hold", est_s=5, bounds="base case of the invariant: fresh mutex + fresh future"),
        H(MUTEX, "hist_%s_n5" % tag, "hold", replay=("mutex_hist_noop", cfg), mask=P(pbit), est_s=90,
          bounds="E-HIST: K=3 slots (re-creatable), N=5 operations from new(), 11-way alphabet, wakers A|B"),
        H(MUTEX, "witness_hist_n5", "witness", replay=("mutex_hist_noop", 2), mask=PALL, witness_bit=1, est_s=100,
          bounds="witness twin: N=5, must reach 'two pending, unlock wakes one'"),
    ]
    thorough = quick + [
        H(MUTEX, "hist_%s_n7" % tag, "hold", replay=("mutex_hist_noop", cfg), mask=P(pbit), est_s=900,
          timeout=3000, bounds="E-HIST: K=3, N=7"),
        H(MUTEX, "hist_%s_n6_check" % tag, "hold", replay=("mutex_hist_check", cfg), mask=P(pbit), est_s=400,
          timeout=3000, bounds="E-HIST: K=3, N=6, MutexType=CheckLock"),
        H(MUTEX, "hist_%s_n8" % tag, "hold", replay=("mutex_hist_noop", cfg), mask=P(pbit), est_s=3000,
          timeout=3400, bonus=True, bounds="E-HIST: K=3, N=8 (bonus: reported if it finishes)"),
    ]
    return {"quick": quick, "thorough": thorough, "functions": MUTEX_FUNCS,
            "instantiations": ["GenericMutex<NoopLock,u8>", "GenericMutex<CheckLock,u8> (thorough)"],
            "bounds": {"quick": {"K_live_futures": 3, "N_ops": 5, "step_history_length": "unbounded (inductive)"},
                       "thorough": {"K_live_futures": 3, "N_ops": 7, "N_ops_bonus": 8,
                                    "step_history_length": "unbounded (inductive)"}},
            "assumptions": []}


PROPS = {
    "C02": mutex_prop("C02", 2),
    "C03": mutex_prop("C03", 3),
    "C04": mutex_prop("C04", 4, fair_only=True),
}

CUSTOM = {}

# ---------------------------------------------------------------------------
# script decoders (for replay files and evidence samples)
# ---------------------------------------------------------------------------


def decode_mutex(cfg, script):
    out = []
    it = iter(script)
    if cfg == 2:
        out.append("fair=%s" % bool(next(it, 0)))
    else:
        out.append("fair=%s" % (cfg == 1))
    for op in it:
        if op < 6:
            out.append("poll lock-future #%d with waker %s (re-created first if dropped)" % (op // 2, "AB"[op % 2]))
        elif op < 9:
            out.append("drop lock-future #%d" % (op - 6))
        elif op == 9:
            out.append("drop guard (unlock)")
        elif op == 10:
            out.append("try_lock")
        else:
            out.append("<byte %d outside the alphabet>" % op)
    return out


DECODERS = {"mutex_hist_noop": decode_mutex, "mutex_hist_check": decode_mutex}


def decode(name, cfg, script):
    f = DECODERS.get(name)
    if not f:
        return ["<no decoder for %s>" % name]
    try:
        return f(cfg, list(script))
    except Exception as e:  # decoding is cosmetic
        return ["<decode error %r>" % (e,)]


def match_known(known, prop, harness, decoded, msg):
    """A known (unrepaired) finding matches by role: property + substring of the oracle message
    + every 'requires' substring present in the decoded history."""
    for k in known:
        role = k.get("role", {})
        if role.get("oracle_contains", "\0") not in msg:
            continue
        text = "\n".join(decoded)
        if all(r in text for r in role.get("history_contains", [])):
            return k
    return None

NOT_APPLICABLE = {}

DEFAULT_TECHNIQUE = "bounded model checking of the real crate with Kani/CBMC (SAT): inductive single step from a symbolic pre-state + symbolic public-API histories vs. reference model"
DEFAULT_LEVEL_TEXT = ("Bounded model checking by a SAT solver over the compiled crate. (a) E-STEP: the state of the primitive and of "
    "K futures is symbolic under a representation invariant, ONE real operation runs, invariant and property are asserted "
    "afterwards: together with the base case this covers histories of any length over at most K live futures. (b) E-HIST: "
    "a symbolic script of N operations from new() through the public API is compared with a reference model after every "
    "operation; a counterexample is a concrete script that is replayed natively against the real build before it is reported. "
    "Right level for a for-all-histories property of pointer-manipulating code: the solver decides every history within the "
    "bounds instead of sampling, and the bounds (K, N, amounts) are stated in the evidence.")
DEFAULT_LEVEL_NOTE = ("Trusted: rustc, Kani 0.68 (MIR->goto), CBMC 6.11, CaDiCaL, lock_api, core::task; the reference models, "
    "oracles and invariants in /verif/harness/inc. Assumed: sequential interleavings stand for thread schedules (state is only "
    "touched inside one internal critical section per call), MutexType = NoopLock / discipline-checking CheckLock instead of "
    "parking_lot, at most K live futures, amounts/capacities within the stated small ranges.")

"""Registry of solver jobs per property and tier (DESIGN.md sections 5-6)."""

PALL = 0xFFFFFFFF


def P(n):
    return 1 << n


NOT_APPLICABLE = {}

DEFAULT_TECHNIQUE = "bounded model checking of the real crate with Kani/CBMC (SAT): inductive single step from a symbolic pre-state + symbolic public-API histories vs. reference model"
DEFAULT_LEVEL_TEXT = ("Bounded model checking by a SAT solver over the compiled crate. (a) E-STEP: the state of the primitive and of "
    "K futures is symbolic under a representation invariant, ONE real operation runs, invariant and property are asserted "
    "afterwards: together with the base case this covers histories of any length over at most K live futures. (b) E-HIST: "
    "a symbolic script of N operations from new() through the public API is compared with a reference model after every "
    "operation; a counterexample is a concrete script that is replayed natively against the real build before it is reported. "
    "Right level for a for-all-histories property of pointer-manipulating code: the solver decides every history within the "
    "bounds instead of sampling, and the bounds (K, N, amounts) are stated in the evidence.")
DEFAULT_LEVEL_NOTE = ("Trusted: rustc, Kani 0.68 (MIR->goto), CBMC 6.11, CaDiCaL, lock_api, core::task; the reference models, "
    "oracles and invariants in /verif/harness/inc. Assumed: sequential interleavings stand for thread schedules (state is only "
    "touched inside one internal critical section per call), MutexType = NoopLock / discipline-checking CheckLock instead of "
    "parking_lot, at most K live futures, amounts/capacities within the stated small ranges.")


GLOBAL_ASSUMPTIONS = [
    "Kani verifies monomorphic instances: MutexType = NoopLock (Local* flavours) and CheckLock (a RawMutex+Sync "
    "over Cell<bool> that asserts the locking discipline); parking_lot::RawMutex itself is trusted, not modelled",
    "no real threads: every thread schedule of API calls on the Sync flavours is reduced to a sequential interleaving "
    "of the same calls, justified by 'all primitive state lives inside one lock_api::Mutex critical section per call' "
    "(DESIGN 5.3); weak-memory effects of the handle counters and interleavings inside multi-section operations are "
    "outside the claim",
    "payload T = u8 or a drop-counting Tag(u8); wakers are non-allocating counting RawWakers whose wake() does not "
    "re-enter the primitive",
    "contract-respecting histories only: no poll after completion, no mem::forget of a pinned pending future, "
    "no try_send on an unbuffered channel",
    "E-STEP harnesses assume the representation invariant written in /verif/harness/inc/<module>.rs; its parts are "
    "owned by different properties (assume-guarantee): the unbounded-history reading of one property relies on the "
    "other properties' step checks passing as well",
]


def H(mod, name, role, **kw):
    d = {"harness": mod + "::" + name, "role": role}
    d.update(kw)
    return d


MUTEX = "sync::mutex::verif_mutex::proofs"

MUTEX_FUNCS = [
    "sync::mutex::MutexState::try_lock", "sync::mutex::MutexState::try_lock_sync", "sync::mutex::MutexState::unlock",
    "sync::mutex::MutexState::return_last_waiter", "sync::mutex::MutexState::remove_waiter",
    "sync::mutex::MutexState::force_remove_waiter", "<GenericMutexLockFuture as Future>::poll",
    "<GenericMutexLockFuture as Drop>::drop", "<GenericMutexGuard as Drop>::drop", "GenericMutex::try_lock",
    "GenericMutex::lock", "GenericMutex::is_locked", "utils::update_waker_ref",
    "LinkedList::add_front", "LinkedList::remove", "LinkedList::remove_last", "LinkedList::peek_last_mut",
    "LinkedList::is_empty",
]


def mutex_prop(pid, pbit, fair_only=False):
    cfg = 1 if fair_only else 2
    tag = pid.lower()
    quick = [
        H(MUTEX, "step_%s" % tag, "step", est_s=40,
          bounds="E-STEP: K=3 lock futures in arbitrary poll states/queue order/stored wakers, 1 arbitrary operation, %s" % (
              "fair" if fair_only else "both fairness modes")),
        H(MUTEX, "step_base", "hold", est_s=5, bounds="base case of the invariant: fresh mutex + fresh future"),
        H(MUTEX, "hist_%s_n5" % tag, "hold", replay=("mutex_hist_noop", cfg), mask=P(pbit), est_s=90,
          bounds="E-HIST: K=3 slots (re-creatable), N=5 operations from new(), 11-way alphabet, wakers A|B"),
        H(MUTEX, "hist_%s_p3_n7" % tag, "hold", replay=("mutex_hist_noop", cfg | (3 << 2)), mask=P(pbit), est_s=100,
          bounds="E-HIST: K=3, N=7 operations of which the first 3 are fixed to 'poll lock future #k' (partition)"),
        H(MUTEX, "hist_%s_l_p3_n7" % tag, "hold", replay=("mutex_hist_noop", cfg | (3 << 2) | (1 << 4)), mask=P(pbit), est_s=100,
          bounds="E-HIST: K=3, N=7 operations: try_lock, then the 3 lock futures are polled (all queue up behind the guard), then 3 arbitrary operations"),
        H(MUTEX, "hist_%s_l_p2_n7" % tag, "hold", replay=("mutex_hist_noop", cfg | (2 << 2) | (1 << 4)), mask=P(pbit), est_s=150,
          bounds="E-HIST: K=3, N=7 operations: try_lock, futures #0 and #1 polled (queued behind the guard), then 4 arbitrary operations"),
        H(MUTEX, "witness_hist_n5", "witness", replay=("mutex_hist_noop", 2), mask=PALL, witness_bit=1, est_s=100,
          bounds="witness twin: N=5, must reach 'two pending, unlock wakes one'"),
    ]
    if pid == "C03":
        quick.append(H(MUTEX, "waker_identity_c03", "hold", replay=("mutex_waker_identity", 0), mask=P(3), est_s=10, est_gb=1,
                       bounds="straight line: a waiting lock future is re-polled with a waker that has the SAME data pointer and another vtable "
                              "(will_wake false); the unlock must wake through the latest one; both fairness modes"))
    thorough = quick + [
        H(MUTEX, "hist_%s_n7" % tag, "hold", replay=("mutex_hist_noop", cfg), mask=P(pbit), est_s=900,
          timeout=3000, bounds="E-HIST: K=3, N=7"),
        H(MUTEX, "hist_%s_n6_check" % tag, "hold", replay=("mutex_hist_check", cfg), mask=P(pbit), est_s=400,
          timeout=3000, bounds="E-HIST: K=3, N=6, MutexType=CheckLock"),
        H(MUTEX, "hist_%s_p3_n8" % tag, "hold", replay=("mutex_hist_noop", cfg | (3 << 2)), mask=P(pbit), est_s=600,
          timeout=3000, bounds="E-HIST: K=3, N=8 with 3-poll prefix"),
        H(MUTEX, "hist_%s_n8" % tag, "hold", replay=("mutex_hist_noop", cfg), mask=P(pbit), est_s=3000,
          timeout=3400, bonus=True, bounds="E-HIST: K=3, N=8 (bonus: reported if it finishes)"),
    ]
    return {"quick": quick, "thorough": thorough, "functions": MUTEX_FUNCS,
            "instantiations": ["GenericMutex<NoopLock,u8>", "GenericMutex<CheckLock,u8> (thorough)"],
            "bounds": {"quick": {"K_live_futures": 3, "N_ops": 5, "step_history_length": "unbounded (inductive)"},
                       "thorough": {"K_live_futures": 3, "N_ops": 7, "N_ops_bonus": 8,
                                    "step_history_length": "unbounded (inductive)"}},
            "assumptions": []}


SEM = "sync::semaphore::verif_sem::proofs"
SEMSH = "sync::semaphore::if_alloc::verif_sem_shared::proofs"
SEM_FUNCS = [
    "SemaphoreState::wakeup_waiters", "SemaphoreState::release", "SemaphoreState::try_acquire_sync",
    "SemaphoreState::try_acquire", "SemaphoreState::remove_waiter", "SemaphoreState::force_remove_waiter",
    "<GenericSemaphoreAcquireFuture as Future>::poll", "<GenericSemaphoreAcquireFuture as Drop>::drop",
    "<GenericSemaphoreReleaser as Drop>::drop", "GenericSemaphoreReleaser::disarm", "GenericSemaphore::try_acquire",
    "GenericSemaphore::release", "GenericSemaphore::permits", "GenericSemaphore::acquire", "utils::update_waker_ref",
    "LinkedList::add_front", "LinkedList::remove", "LinkedList::remove_last", "LinkedList::peek_last_mut",
    "LinkedList::is_empty",
]


def sem_cfg(fm, pre, k=0, steal=0):
    return fm | (pre << 2) | (k << 4) | (steal << 6)


def sem_prop(pid, pbit, modes, step_names, extra_quick=(), extra_thorough=()):
    """modes: list of (mode tag, fairness mode value)"""
    tag = pid.lower()
    quick, thorough = [], []
    for sn in step_names:
        quick.append(H(SEM, sn, "step", est_s=60,
                       bounds="E-STEP: K=3 acquire futures in arbitrary poll states/queue order/stored wakers, "
                              "permits and requests 0..3 (step_c05_wide: < 2^62), 1 arbitrary operation"))
    quick.append(H(SEM, "step_base", "hold", est_s=5, bounds="base case of the invariant"))
    alpha = ("19-way alphabet (poll A|B x3, cancel x3, releaser drop x4, disarm x4, release(a), try_acquire(a)), "
             "initial permits/requests/amounts 0..3, slot/waker symmetry broken")
    for (mt, mv) in modes:
        def hj(v, pre, n, tier_list, lock="noop", est=300, bonus=False, suffix=""):
            tier_list.append(H(SEM, "hist_%s_%s_%s%s" % (tag, mt, v, suffix), "hold",
                               replay=("sem_hist_%s" % lock, sem_cfg(mv, pre)), mask=P(pbit), est_s=est,
                               timeout=(1500 if tier_list is quick else 3400), bonus=bonus,
                               bounds="E-HIST: K=3 slots (re-creatable), %d operations from new() of which the first %d are "
                                      "fixed to 'poll a fresh future' (partition), %s%s" % (
                                          n, pre, alpha, ", MutexType=CheckLock" if lock == "check" else "")))
        hj("p0_n4", 0, 4, quick)
        if pid == "C05":
            # (the symbolic-fairness p2_n5 instance needs ~9 min; the 'steal' partition reaches the re-queue path in 2-3 min)
            quick.append(H(SEM, "hist_c05_x_p1s_n5", "hold", replay=("sem_hist_noop", sem_cfg(mv, 1, 0, 1)), mask=P(pbit), est_s=300, est_gb=3.5, timeout=1500,
                           bounds="E-HIST 'steal' partition: poll future #0, release(a), try_acquire(b) with symbolic amounts, then 2 arbitrary operations"))
            hj("p2_n5", 2, 5, thorough, est=1200)
        else:
            hj("p2_n5", 2, 5, quick)
        hj("p0_n5", 0, 5, thorough, est=1200)
        hj("p2_n6", 2, 6, thorough, est=1500)
        hj("p3_n6", 3, 6, thorough, est=1200)
        hj("p2_n5", 2, 5, thorough, lock="check", est=600, suffix="_check")
        hj("p3_n7", 3, 7, thorough, est=3000, bonus=True)
    if pid == "C06":
        quick.append(H(SEM, "waker_identity_c06", "hold", replay=("sem_waker_identity", 0), mask=P(6), est_s=10, est_gb=1,
                       bounds="straight line: a waiting acquire future is re-polled with a waker that has the same data pointer and another vtable; "
                              "release must wake through the latest one; both fairness modes"))
    if pid in ("C05", "C06"):
        quick.append(H(SEMSH, "scenario_%s" % tag, "hold", replay=("semsh_scenario", 0), mask=P(pbit), est_s=160, est_gb=10, mem_gb=24, timeout=1500,
                       bounds="SHARED (Arc) semaphore, straight-line scenario: fairness, initial permits 0..2, request 1..2 symbolic; acquire future "
                              "polled, optional re-poll with another waker, release(1..2), re-poll, releaser dropped, future dropped"))
        thorough.append(H(SEMSH, "hist_%s_n4" % tag, "hold", replay=("semsh_hist_noop", 2), mask=P(pbit), est_s=400, est_gb=5, timeout=3000,
                          bounds="E-HIST SHARED (Arc) semaphore: 2 acquire futures, permits 0..2, requests 1..2, N=4 operations, both fairness modes"))
        thorough.append(H(SEMSH, "hist_%s_n5" % tag, "hold", replay=("semsh_hist_noop", 2), mask=P(pbit), est_s=1500, est_gb=6, timeout=3300, bonus=True,
                          bounds="E-HIST shared semaphore N=5 (bonus)"))
    quick.append(H(SEM, "witness_release_p2_n4", "witness", replay=("sem_hist_noop", sem_cfg(2, 2)), mask=PALL,
                   witness_bit=1, est_s=150, bounds="witness twin: must reach 'release wakes the head with 2 pending'"))
    quick += list(extra_quick)
    thorough = quick + thorough + list(extra_thorough)
    return {"quick": quick, "thorough": thorough, "functions": SEM_FUNCS,
            "instantiations": ["GenericSemaphore<NoopLock>", "GenericSemaphore<CheckLock> (thorough)"],
            "bounds": {"quick": {"K_live_futures": 3, "N_ops": "4 unrestricted / 5 with 2-poll prefix", "amounts": "0..3",
                                 "step_history_length": "unbounded (inductive)"},
                       "thorough": {"K_live_futures": 3, "N_ops": "5 unrestricted / 6 with 2- or 3-poll prefix (7 bonus)",
                                    "amounts": "0..3", "step_history_length": "unbounded (inductive)"}},
            "assumptions": ["release() overflow of the permit counter (a TODO in the source) is excluded by bounding amounts"]}


PROPS = {
    "C05": sem_prop("C05", 5, [("x", 2)], ["step_c05", "step_c05_wide"]),
    "C06": sem_prop("C06", 6, [("u", 0), ("f", 1)],
                    ["step_c06_poll", "step_c06_drop", "step_c06_release", "step_c06_try"],
                    extra_quick=[H(SEM, "hist_c06_u_p1s_n5", "hold", replay=("sem_hist_noop", sem_cfg(0, 1, 0, 1)), mask=P(6), est_s=300, est_gb=3.5, timeout=1500,
                                   bounds="E-HIST unfair, 'steal' partition: poll future #0, release(a), try_acquire(b) with symbolic amounts, then 2 arbitrary "
                                          "operations (reaches a notified future that re-queues, incl. with another waker)"),H(SEM, "witness_cancel_head_p2_n4", "witness", replay=("sem_hist_noop", sem_cfg(2, 2)),
                                   mask=PALL, witness_bit=2, est_s=120,
                                   bounds="witness twin: must reach 'pending head cancelled with a waiter behind'")]),
    "C07": sem_prop("C07", 7, [("f", 1)], ["step_c07"]),
    "C02": mutex_prop("C02", 2),
    "C03": mutex_prop("C03", 3),
    "C04": mutex_prop("C04", 4, fair_only=True),
}

LIST = "intrusive_double_linked_list::verif_list::proofs"
HEAP = "intrusive_pairing_heap::verif_heap::proofs"
RING = "buffer::ring_buffer::verif_ring::proofs"


def c20_prop():
    quick = [
        H(LIST, "list_step_k5", "step", profile="full", est_s=110,
          bounds="E-STEP list: ANY well-formed list over a subset of 5 nodes (links written directly), 1 of add_front/"
                 "remove_first/remove_last/remove(any node)/drain/reverse_drain; deque model + structural validator; all Kani default checks"),
        H(LIST, "list_buildstep_k5", "hold", replay=("list_buildstep", 5), est_s=60,
          bounds="constructive step: any list over <= 5 nodes built by real add_front calls, then 1 arbitrary operation (a history from empty)"),
        H(LIST, "list_witness_buildstep_k4", "witness", replay=("list_buildstep", 4), witness_bit=1, est_s=40,
          bounds="witness twin: a middle node is removed"),
        H(HEAP, "heap_step_k4", "step", profile="full", est_s=340, timeout=1500,
          bounds="E-STEP heap: ANY heap-ordered multiway tree over a subset of 4 nodes (symbolic parent map, sibling order, keys in a "
                 "3-value set), insert(non-member) | remove(any member); structural validator + peek_min minimality; all Kani default checks"),
        H(HEAP, "heap_hist_k3_n4", "hold", replay=("heap_hist", 3), est_s=120,
          bounds="E-HIST heap from empty: 3 nodes, <= 4 operations, keys 0..2, re-insertion allowed"),
        H(HEAP, "heap_hist_k4_p4_n6", "hold", replay=("heap_hist", 4 | (4 << 4)), est_s=200,
          bounds="E-HIST heap: insert 4 nodes (symbolic keys), then <= 2 arbitrary operations"),
        H(HEAP, "heap_wide_k7", "hold", replay=("heap_wide", 0), est_s=300, est_gb=4, timeout=1500,
          bounds="E-HIST heap, partition 'wide': a minimal root and up to 6 children with symbolic keys built by real inserts, remove the root "
                 "(merge_children over up to 6 siblings) or a child, then drain through peek_min/remove"),
        H(HEAP, "heap_witness_k4_n6", "witness", replay=("heap_hist", 4 | (4 << 4)), witness_bit=2, est_s=200,
          bounds="witness twin: the root is removed while it has >= 3 children"),
    ]
    thorough = quick + [
        H(LIST, "list_hist_k4_n6", "hold", replay=("list_hist", 4), est_s=320, timeout=3000,
          bounds="E-HIST list from empty: 4 nodes, <= 6 operations"),
        H(LIST, "list_hist_k5_n8", "hold", replay=("list_hist", 5), est_s=2000, timeout=3400, bonus=True,
          bounds="E-HIST list from empty: 5 nodes, <= 8 operations (bonus)"),
        H(HEAP, "heap_step_k5_insert", "step", profile="full", est_s=160, timeout=3000, bounds="E-STEP heap, 5 nodes, insert"),
        H(HEAP, "heap_step_k5_remove", "step", profile="full", est_s=1500, timeout=3400,
          bounds="E-STEP heap, ANY tree over 5 nodes, remove(any member)"),
        H(HEAP, "heap_hist_k3_n5", "hold", replay=("heap_hist", 3), est_s=400, timeout=3000, bounds="E-HIST heap: 3 nodes, <= 5 operations"),
        H(HEAP, "heap_hist_k4_n6", "hold", replay=("heap_hist", 4), est_s=3000, timeout=3400, bonus=True,
          bounds="E-HIST heap: 4 nodes, <= 6 operations (bonus)"),
        H(HEAP, "heap_hist_k5_p5_n8", "hold", replay=("heap_hist", 5 | (5 << 4)), est_s=2000, timeout=3400, bonus=True,
          bounds="E-HIST heap: insert 5 nodes, then <= 3 arbitrary operations (bonus)"),
    ]
    return {"quick": quick, "thorough": thorough,
            "functions": ["LinkedList::add_front", "LinkedList::remove_first", "LinkedList::remove_last", "LinkedList::remove",
                          "LinkedList::drain", "LinkedList::reverse_drain", "LinkedList::peek_first", "LinkedList::peek_last",
                          "LinkedList::is_empty", "PairingHeap::insert", "PairingHeap::remove", "PairingHeap::peek_min",
                          "meld", "maybe_meld", "add_child", "merge_children", "last_child", "unlink_prev", "safe_lesser"],
            "instantiations": ["LinkedList<u8>", "PairingHeap<u8>"],
            "bounds": {"quick": {"list_nodes": 5, "heap_nodes": 4, "heap_keys": "0..2", "step_history_length": "unbounded (any well-formed shape)"},
                       "thorough": {"list_nodes": 5, "heap_nodes": 5, "hist_ops": "list 6 (8 bonus), heap 5 (6 bonus)"}},
            "assumptions": ["the documented preconditions are respected (add_front/insert only for non-members, remove(heap) only for members)",
                            "every heap-ordered multiway tree is a valid pairing heap (no balance invariant), so the heap step needs no reachability strengthening"]}


def c19_prop():
    quick = [H(RING, "array_step_c%d" % c, "step", profile="full", est_s=20,
               bounds="E-STEP ArrayBuf<Tag,[Tag;%d]>: symbolic size/recv_idx/send_idx + contents under the index invariant, "
                      "1 of push|pop|Drop, drop counters, all Kani default checks (MaybeUninit accesses)" % c) for c in range(5)]
    quick += [H(RING, "array_hist_c%d" % c, "hold", replay=("ring_hist_array", c), est_s=30,
                bounds="E-HIST ArrayBuf capacity %d: %d push/pop operations vs FIFO model, drop counters at the end" % (c, 2 * c + 2))
              for c in range(5)]
    for kind in ("fixed", "growing"):
        quick += [H(RING, "%s_hist_c0" % kind, "hold", replay=("ring_hist_%s" % kind, 0), est_s=10, bounds="%sHeapBuf capacity 0, 2 operations" % kind),
                  H(RING, "%s_hist_c1" % kind, "hold", replay=("ring_hist_%s" % kind, 1), est_s=10, bounds="%sHeapBuf capacity 1, 4 operations" % kind),
                  H(RING, "%s_hist_c2_n3" % kind, "hold", replay=("ring_hist_%s" % kind, 2), est_s=15, bounds="%sHeapBuf capacity 2, 3 operations" % kind)]
    quick += [H(RING, "zst_fixed_c0", "hold", replay=("ring_zst_fixed", 0), est_s=10, bounds="FixedHeapBuf of ZERO-SIZED drop-counting elements, capacity 0, 2 operations"),
              H(RING, "zst_fixed_c2", "hold", replay=("ring_zst_fixed", 2), est_s=20, bounds="FixedHeapBuf of zero-sized elements, capacity 2, 4 operations"),
              H(RING, "zst_growing_c2", "hold", replay=("ring_zst_growing", 2), est_s=20, bounds="GrowingHeapBuf of zero-sized elements, capacity 2, 4 operations"),
              H(RING, "zst_array_c2", "hold", replay=("ring_zst_array", 2), est_s=20, bounds="ArrayBuf of zero-sized elements, capacity 2, 4 operations")]
    quick += [H(RING, "next_idx_%d" % n, "hold", replay=("ring_next_idx", n), est_s=10,
                bounds="ArrayBuf over a user-defined RealArray of %d elements (> 64, not a power of two): next_idx(i) = (i+1) mod capacity for "
                       "EVERY i, two pushes and pops across an arbitrary ring position" % n) for n in (65, 96, 100)]
    for j in quick:
        j.setdefault("mask", P(19))   # the ring interpreter arms the C18 allocation counters only under P18
    quick.append(H(RING, "array_witness_c2", "witness", replay=("ring_hist_array", 2), mask=P(19), witness_bit=5, est_s=20,
                   bounds="witness twin: index wrap-around and drop of a non-empty buffer"))
    thorough = quick + [H(RING, "array_step_c%d" % c, "step", profile="full", est_s=60, mask=P(19),
                          bounds="E-STEP ArrayBuf<Tag,[Tag;%d]>: any index state, 1 of push|pop|Drop" % c) for c in (5, 6, 7)] + [
        H(RING, "array_hist_c5", "hold", replay=("ring_hist_array", 5), mask=P(19), est_s=300, timeout=3000,
          bounds="E-HIST ArrayBuf capacity 5: 12 push/pop operations vs FIFO model, drop counters at the end"),
    ]
    return {"quick": quick, "thorough": thorough,
            "functions": ["ArrayBuf::push", "ArrayBuf::pop", "ArrayBuf::next_idx", "<ArrayBuf as Drop>::drop", "ArrayBuf::len/can_push/capacity/is_empty",
                          "FixedHeapBuf::{with_capacity,push,pop,len,can_push,capacity}", "GrowingHeapBuf::{with_capacity,push,pop,len,can_push,capacity}"],
            "instantiations": ["ArrayBuf<Tag,[Tag;C]> for C in 0..4", "FixedHeapBuf<Tag>", "GrowingHeapBuf<Tag>"],
            "bounds": {"array_capacity": "0..4 (E-STEP: any reachable or unreachable index state; E-HIST: 2C+2 operations)",
                       "heap_backed": "capacity 0 (2 ops), 1 (4 ops), 2 (3 ops): alloc::VecDeque's own index arithmetic makes deeper "
                                      "scripts run out of memory in CBMC; VecDeque itself is trusted"},
            "assumptions": ["push only when can_push(), pop only when non-empty (the RingBuf contract)",
                            "alloc::collections::VecDeque is trusted for the heap-backed buffers beyond the stated script lengths"]}


EVENT = "sync::manual_reset_event::verif_event::proofs"


def c14_prop():
    quick = [
        H(EVENT, "step_c14", "step", est_s=30, bounds="E-STEP: K=3 wait futures in arbitrary states (new/waiting/latched/terminated), arbitrary queue order "
                                                      "and stored wakers, event set|reset, 1 of poll(A|B)/drop/set/reset"),
        H(EVENT, "step_base", "hold", est_s=5, bounds="base case of the invariant"),
        H(EVENT, "hist_c14_n6", "hold", replay=("event_hist_noop", 2), mask=P(14), est_s=120,
          bounds="E-HIST: K=3 slots (re-creatable), N=6 operations from new(symbolic), 11-way alphabet, wakers A|B, symmetry broken"),
        H(EVENT, "witness_reset_n6", "witness", replay=("event_hist_noop", 2), mask=PALL, witness_bit=2, est_s=120,
          bounds="witness twin: a waiter completes although reset() came between set() and its re-poll"),
    ]
    thorough = quick + [
        H(EVENT, "hist_c14_n7", "hold", replay=("event_hist_noop", 2), mask=P(14), est_s=600, timeout=3000, bounds="E-HIST: K=3, N=7"),
        H(EVENT, "hist_c14_n6_check", "hold", replay=("event_hist_check", 2), mask=P(14), est_s=300, timeout=3000,
          bounds="E-HIST: K=3, N=6, MutexType=CheckLock"),
        H(EVENT, "hist_c14_n8", "hold", replay=("event_hist_noop", 2), mask=P(14), est_s=2500, timeout=3400, bonus=True,
          bounds="E-HIST: K=3, N=8 (bonus)"),
    ]
    return {"quick": quick, "thorough": thorough,
            "functions": ["EventState::set", "EventState::reset", "EventState::is_set", "EventState::try_wait", "EventState::remove_waiter",
                          "<GenericWaitForEventFuture as Future>::poll", "<GenericWaitForEventFuture as Drop>::drop",
                          "LinkedList::add_front", "LinkedList::remove", "LinkedList::reverse_drain", "utils::update_waker_ref"],
            "instantiations": ["GenericManualResetEvent<NoopLock>", "GenericManualResetEvent<CheckLock> (thorough)"],
            "bounds": {"quick": {"K_live_futures": 3, "N_ops": 6, "step_history_length": "unbounded (inductive)"},
                       "thorough": {"K_live_futures": 3, "N_ops": 7, "N_ops_bonus": 8}},
            "assumptions": []}


LIFE = "verif::life::proofs"
ONESHOT = "channel::oneshot::verif_oneshot::proofs"
ONESHOT_BC = "channel::oneshot_broadcast::verif_oneshot_bc::proofs"


STATE = "channel::state_broadcast::verif_state::proofs"


def recv_chan_prop(pid, pbit, mods, what, funcs, extra_quick=(), extra_thorough=()):
    """mods: list of (module path, replay prefix, label, witness name, witness bit)"""
    tag = pid.lower()
    quick, thorough = [], []
    for (mod, rp, label, wname, wbit) in mods:
        quick += [
            H(mod, "step_%s" % tag, "step", est_s=30,
              bounds="E-STEP %s: K=3 receive futures in arbitrary states/queue order/stored wakers, arbitrary channel state, "
                     "1 of poll(A|B)/drop/send/close%s" % (label, "/try_receive, state id full-range u64" if "state" in rp else "")),
            H(mod, "hist_%s_n6" % tag, "hold", replay=(rp + "_hist_noop", 0), mask=P(pbit), est_s=150,
              bounds="E-HIST %s: K=3 slots (re-creatable), N=6 operations from new(), wakers A|B, symmetry broken" % label),
            H(mod, wname, "witness", replay=(rp + "_hist_noop", 0), mask=PALL, witness_bit=wbit, est_s=150,
              bounds="witness twin (%s)" % label),
        ]
        thorough += [
            H(mod, "hist_%s_n7" % tag, "hold", replay=(rp + "_hist_noop", 0), mask=P(pbit), est_s=800, timeout=3000, bounds="E-HIST %s: N=7" % label),
            H(mod, "hist_%s_n6_check" % tag, "hold", replay=(rp + "_hist_check", 0), mask=P(pbit), est_s=400, timeout=3000,
              bounds="E-HIST %s: N=6, MutexType=CheckLock" % label),
            H(mod, "hist_%s_n8" % tag, "hold", replay=(rp + "_hist_noop", 0), mask=P(pbit), est_s=3000, timeout=3400, bonus=True,
              bounds="E-HIST %s: N=8 (bonus)" % label),
        ]
    quick += list(extra_quick)
    thorough = quick + thorough + list(extra_thorough)
    return {"quick": quick, "thorough": thorough, "functions": funcs,
            "instantiations": ["%s over NoopLock (CheckLock in thorough), T = Tag" % what],
            "bounds": {"quick": {"K_live_futures": 3, "N_ops": 6, "step_history_length": "unbounded (inductive)"},
                       "thorough": {"K_live_futures": 3, "N_ops": 7, "N_ops_bonus": 8}},
            "assumptions": []}


ONESHOT_FUNCS = ["oneshot::ChannelState::send", "oneshot::ChannelState::close", "oneshot::ChannelState::try_receive",
                 "oneshot::ChannelState::remove_waiter", "oneshot_broadcast::ChannelState::{send,close,try_receive,remove_waiter}",
                 "wake_waiters", "<ChannelReceiveFuture as Future>::poll", "<ChannelReceiveFuture as Drop>::drop",
                 "LinkedList::add_front", "LinkedList::remove", "LinkedList::reverse_drain", "utils::update_waker_ref"]
STATE_FUNCS = ["state_broadcast::ChannelState::{send,close,try_receive,receive_or_register,remove_waiter}", "wake_waiters",
               "<StateReceiveFuture as Future>::poll", "<StateReceiveFuture as Drop>::drop", "LinkedList::add_front",
               "LinkedList::remove", "LinkedList::reverse_drain", "utils::update_waker_ref"]


def c11_prop():
    quick = [
        H(LIFE, "life_oneshot_bc_n3", "hold", replay=("life_oneshot_bc", 0), mask=P(11), est_s=140,
          bounds="E-HIST lifecycle, shared oneshot-broadcast: 1 sender + up to 2 receiver handles, 3 clone/drop operations, "
                 "closedness observed through a registered receive future that outlives the handles"),
        H(LIFE, "life_oneshot_n3", "hold", replay=("life_oneshot", 0), mask=P(11), est_s=120,
          bounds="E-HIST lifecycle, shared oneshot: 1 sender + 1 receiver handle, up to 3 drop operations"),
        H(LIFE, "life_witness_oneshot_bc_n3", "witness", replay=("life_oneshot_bc", 0), mask=PALL, witness_bit=5, est_s=200,
          bounds="witness twin: a non-last receiver handle is dropped, later the last one"),
    ]
    for (mod, rp, label) in ((ONESHOT, "oneshot", "oneshot"), (ONESHOT_BC, "oneshot_bc", "oneshot-broadcast"), (STATE, "state", "state-broadcast")):
        quick.append(H(mod, "step_c11", "step", est_s=30, bounds="E-STEP %s: close()/send-after-close semantics from an arbitrary state" % label))
        quick.append(H(mod, "hist_c11_n5", "hold", replay=(rp + "_hist_noop", 0), mask=P(11), est_s=80,
                       bounds="E-HIST %s: close status sequence, sends after close hand the value back, pending receivers woken; N=5" % label))
    for cap in (0, 1, 2):
        quick.append(H(MPMC, "step_c11_c%d_tc" % cap, "step", est_s=60, est_gb=1.0, bounds="E-STEP mpmc capacity %d: try_send/try_receive/close from an arbitrary state" % cap))
        quick.append(H(MPMC, "step_c11_c%d_ps" % cap, "step", est_s=40, est_gb=1.0, bounds="E-STEP mpmc capacity %d: poll send (send after close hands the value back)" % cap))
        quick.append(H(MPMC, "step_c11_c%d_pr" % cap, "step", est_s=40, est_gb=1.0, bounds="E-STEP mpmc capacity %d: poll receive (drain then None)" % cap))
    quick.append(mpmc_hist("c11", 11, 1, "cl", 3, 5))
    quick.append(mpmc_hist("c11", 11, 0, "cl", 3, 5))
    quick.append(mpmc_hist("c11", 11, 2, "cl", 0, 4))
    quick.append(mpmc_hist("c11", 11, 1, "cl", 4, 5))
    quick.append(H(LIFE, "life_mpmc_discard", "hold", replay=("life_mpmc_discard", 0), mask=P(11), est_s=40,
                   bounds="shared mpmc (public API, no futures): capacity 2, 0-2 buffered values, optional receiver clone, optional explicit close from "
                          "either side, receiver handles dropped in a symbolic order: the LAST receiver discards the buffer immediately and closes"))
    quick.append(H(LIFE, "life_witness_mpmc_discard", "witness", replay=("life_mpmc_discard", 0), mask=PALL, witness_bit=2 | 8, est_s=40,
                   bounds="witness twin: two values buffered, closed by the sender, then the only receiver is dropped"))
    for _fl, _lbl in (("oneshot", "oneshot"), ("oneshot_bc", "oneshot-broadcast"), ("state", "state-broadcast")):
        quick.append(H(LIFE, "shared_value_%s" % _fl, "hold", replay=("shared_value_%s" % _fl, 0), mask=P(11), est_s=10, est_gb=1,
                       bounds="shared %s: a receive future (polled or not) outlives its handles: a value accepted before the receiver and/or sender "
                              "handle is dropped is still delivered" % _lbl))
    quick.append(H(LIFE, "mpmc_handles_n3", "hold", replay=("mpmc_handles", 0), mask=P(11), est_s=30, est_gb=1.5,
                   bounds="shared mpmc handle counting WITHOUT futures: 2 sender + 2 receiver handle slots, 3 clone/drop operations; after each the "
                          "channel is closed exactly if the last handle of a side is gone (observed through try_receive / try_send)"))
    quick.append(H(LIFE, "life_state_n3", "hold", replay=("life_state", 0), mask=P(11), est_s=200,
                   bounds="E-HIST lifecycle, shared state-broadcast: up to 2+2 handles, 3 clone/drop operations"))
    thorough = quick + [
        H(LIFE, "mpmc_handles_n4", "hold", replay=("mpmc_handles", 0), mask=P(11), est_s=60, est_gb=2, timeout=3000,
          bounds="shared mpmc handle counting without futures: 2+2 handle slots, 4 clone/drop operations"),
        H(LIFE, "shared_mpmc_min_c11", "hold", replay=("shared_mpmc_min", 0), mask=P(11), est_s=280, est_gb=20, mem_gb=30, timeout=3000,
          bounds="SHARED (Arc) mpmc send/receive futures, capacity 1, straight-line scenario with optional close(): parked sender woken and handed "
                 "its value back, accepted values still delivered, then Closed"),
        H(ONESHOT, "hist_c11_n7", "hold", replay=("oneshot_hist_noop", 0), mask=P(11), est_s=600, timeout=3000, bounds="E-HIST oneshot N=7"),
        H(ONESHOT_BC, "hist_c11_n7", "hold", replay=("oneshot_bc_hist_noop", 0), mask=P(11), est_s=600, timeout=3000, bounds="E-HIST oneshot-broadcast N=7"),
        H(STATE, "hist_c11_n7", "hold", replay=("state_hist_noop", 0), mask=P(11), est_s=600, timeout=3000, bounds="E-HIST state-broadcast N=7"),
        H(LIFE, "life_state_n4", "hold", replay=("life_state", 0), mask=P(11), est_s=600, timeout=3000, bounds="lifecycle state-broadcast, 4 operations"),
        H(LIFE, "life_oneshot_bc_n4", "hold", replay=("life_oneshot_bc", 0), mask=P(11), est_s=400, timeout=3000, bounds="lifecycle oneshot-broadcast, 4 operations"),
        H(LIFE, "life_oneshot_bc_n4_check", "hold", replay=("life_oneshot_bc_check", 0), mask=P(11), est_s=400, timeout=3000,
          bounds="lifecycle oneshot-broadcast, 4 operations, MutexType=CheckLock"),
    ]
    return {"quick": quick, "thorough": thorough,
            "functions": ["<GenericOneshotBroadcastReceiver as Clone>::clone", "<GenericOneshotBroadcastReceiver as Drop>::drop",
                          "<GenericOneshotBroadcastSender as Drop>::drop", "<GenericOneshotSender as Drop>::drop", "<GenericOneshotReceiver as Drop>::drop",
                          "ChannelState::close", "ChannelState::try_receive", "shared::ChannelReceiveFuture::poll"],
            "instantiations": ["shared oneshot / oneshot-broadcast over NoopLock (CheckLock in thorough), T = Tag"],
            "bounds": {"handles": "2 sender + 2 receiver slots", "N_ops": "3 (4, 6 bonus in thorough)"},
            "assumptions": ["handle counters are modelled sequentially (no weak-memory effects)"]}


TIMER = "timer::timer::verif_timer::proofs"


def c15_prop():
    quick = [
        H(TIMER, "step_c15_poll", "step", est_s=100, est_gb=2, bounds="E-STEP timer: ANY heap-ordered tree over the registered subset of 4 timer futures, deadlines and clock full u64, poll(A|B)"),
        H(TIMER, "step_c15_drop", "step", est_s=300, est_gb=3, timeout=1500, bounds="E-STEP timer: same pre-state, drop of any future (heap removal)"),
        H(TIMER, "step_c15_check2", "step", est_s=300, est_gb=3.5, timeout=1500,
          bounds="E-STEP check_expirations over 2 timer futures (registered or not, deadlines and clock full u64, both heap shapes, wakers A|B): "
                 "exactly the due ones woken once through the latest waker, in deadline order; next_expiration() afterwards"),
        H(TIMER, "delay_full_range", "hold", replay=("timer_delay", 0), mask=P(15), est_s=60,
          bounds="delay(d) = deadline(now + d) saturating: Duration (secs u64, nanos < 1e9) and clock full range"),
        H(TIMER, "hist_c15_k3_drop_a4", "hold", replay=("timer_hist_noop", 4 | (1 << 11)), mask=P(15), est_s=250, est_gb=3, timeout=1500,
          bounds="E-HIST timer: K=3 slots (re-creatable), deadlines 0..3, 4 operations of {poll A|B, drop, advance clock 1|2}; "
                 "completion never early, next_expiration() after every operation (no check_expirations in this alphabet)"),
        H(TIMER, "hist_c15_k2_wide_a3", "hold", replay=("timer_hist_noop", 3 | (2 << 8) | (1 << 11) | (1 << 12)), mask=P(15), est_s=200, est_gb=3, timeout=1500,
          bounds="E-HIST timer 'wide': K=2 slots, deadlines and clock steps over the FULL u64 range, 3 operations of {poll A|B, drop, advance}; "
                 "next_expiration() = smallest registered deadline after every operation, completion never early"),
        H(TIMER, "expired_drop_c15", "hold", replay=("timer_expired_drop", 0), mask=P(15), est_s=220, est_gb=5, timeout=1500,
          bounds="two timers (deadlines d0 < d1 in 1..4, both registration orders), straight line: the earlier one is expired by check_expirations() "
                 "and then DROPPED without being polled again; next_expiration() afterwards is the other deadline"),
        H(TIMER, "facade_c15", "hold", replay=("timer_facade", 0), mask=P(15), est_s=70, est_gb=2.5,
          bounds="thread-safe Timer facade (TimerFuture over GenericTimerService<CheckLock>), one timer, straight line: register, optional re-poll "
                 "with a waker that differs only in the vtable, clock passes the deadline, check_expirations() with or without modelled lock "
                 "contention, re-poll"),
        H(TIMER, "witness_drop_k3_a4", "witness", replay=("timer_hist_noop", 4 | (1 << 11)), mask=PALL, witness_bit=4, est_s=300, est_gb=4, timeout=1500,
          bounds="witness twin: a registered timer is dropped while another stays registered"),
    ]
    thorough = quick + [
        H(TIMER, "hist_c15_k3_drop_a5", "hold", replay=("timer_hist_noop", 5 | (1 << 11)), mask=P(15), est_s=900, est_gb=4, timeout=3300, bounds="E-HIST timer, 5 operations, no check"),
        H(TIMER, "step_c15_check_k3", "step", est_s=3000, est_gb=8, timeout=3400, bonus=True, bounds="E-STEP check_expirations over ANY heap of 3 registered futures (bonus: did not finish in 15 min in probes)"),
    ]
    return {"quick": quick, "thorough": thorough,
            "functions": ["TimerState::try_wait", "TimerState::remove_waiter", "TimerState::next_expiration", "TimerState::check_expirations",
                          "GenericTimerService::deadline_from_now", "LocalTimer::delay", "LocalTimer::deadline", "<LocalTimerFuture as Future>::poll",
                          "<LocalTimerFuture as Drop>::drop", "PairingHeap::insert", "PairingHeap::remove", "PairingHeap::peek_min",
                          "merge_children", "meld", "add_child", "utils::update_waker_ref", "Duration::as_millis"],
            "instantiations": ["GenericTimerService<NoopLock> (CheckLock in thorough), harness Clock over a static AtomicU64"],
            "bounds": {"quick": {"K_step": "4 (poll, drop), 2 (check_expirations)", "K_hist": 3, "N_ops": 4, "deadlines_hist": "0..3", "deadlines_step": "full u64"},
                       "thorough": {"N_ops": 5}},
            "assumptions": ["the clock is a harness Clock returning the script-controlled monotone value; StdClock (wall clock) is not used",
                            "the Timer (Send) facade is a pure wrapper of LocalTimerFuture; only the LocalTimer trait is driven"]}


MPMC = "channel::mpmc::verif_mpmc::proofs"
MPMC_FUNCS = ["mpmc::ChannelState::{try_send,send_or_register,try_receive,receive_or_register,close,clear}",
              "mpmc::ChannelState::{try_copy_value_from_oldest_waiter,try_take_value_from_sender,remove_send_waiter,remove_receive_waiter}",
              "wake_recv_waiters", "wake_send_waiters", "return_oldest_receive_waiter", "<ChannelSendFuture as Future>::poll",
              "ChannelSendFuture::cancel", "<ChannelSendFuture as Drop>::drop", "<ChannelReceiveFuture as Future>::poll",
              "<ChannelReceiveFuture as Drop>::drop", "<ChannelStream as Stream>::poll_next", "ArrayBuf::{push,pop,len,can_push}",
              "LinkedList::{add_front,remove,remove_last,reverse_drain}", "utils::update_waker_ref"]
MPMC_OPS = {"sr": 1 | 2 | 4 | 8, "cl": 1 | 2 | 128 | 8, "tr": 1 | 2 | 32 | 64, "ca": 1 | 2 | 16 | 64, "all": 255}
ALPHA_TXT = {"sr": "poll send/recv (A|B) + drop send/recv", "cl": "poll send/recv + close + drop recv",
             "tr": "poll send/recv + try_send + try_receive", "ca": "poll send/recv + cancel + try_receive", "all": "all 17 operations",
             "st": "poll send + poll STREAM + close + try_send + drop stream", "ss": "poll send + poll receive/STREAM + close"}


def mpmc_cfg(cap, alpha, pre, stream=0):
    ops = MPMC_OPS.get(alpha, 0)
    if cap == 0 and alpha == "tr":
        ops = 1 | 2 | 64 | 4
    if alpha == "st":
        ops = 1 | 2 | 128 | 32 | 8
    if alpha == "ss":
        ops = 1 | 2 | 128
    return cap | (pre << 4) | (stream << 8) | (ops << 12)


def mpmc_hist(tag, pbit, cap, alpha, pre, n, tier_quick=True, lock="noop", bonus=False):
    name = "hist_%s_c%d_%s_p%d_n%d%s" % (tag, cap, alpha, pre, n, "_check" if lock == "check" else "")
    return H(MPMC, name, "hold", replay=("mpmc_hist_%s" % lock, mpmc_cfg(cap, alpha, pre, 1 if alpha == "st" else 0)), mask=P(pbit),
             est_s=200 if n <= 4 else 400, est_gb=3.5, timeout=(1500 if tier_quick else 3400), bonus=bonus,
             bounds="E-HIST mpmc capacity %d: 2 send + 2 receive slots (re-creatable, uniquely tagged drop-counting values), %d operations "
                    "of which the first %d are fixed by partition #%d, alphabet {%s}%s" % (
                        cap, n, [0, 1, 1, 2, 2, 2, 2][pre], pre, ALPHA_TXT[alpha], ", MutexType=CheckLock" if lock == "check" else ""))


def mpmc_prop(pid, pbit, quick_sel, extra_quick=(), extra_thorough=()):
    tag = pid.lower()
    quick, thorough = [], []
    for cap in (0, 1, 2):
        for cn, what in (("ps", "poll send"), ("pr", "poll receive"), ("dc", "drop/cancel"), ("tc", "try_send/try_receive/close")):
            quick.append(H(MPMC, "step_%s_c%d_%s" % (tag, cap, cn), "step", est_s=40, est_gb=1.0,
                           bounds="E-STEP mpmc capacity %d: 2 send + 2 receive futures in arbitrary states/queue orders/stored wakers, "
                                  "arbitrary buffer fill and ring position, open|closed, one operation of class '%s'" % (cap, what)))
    for (cap, alpha, pre, n) in quick_sel:
        quick.append(mpmc_hist(tag, pbit, cap, alpha, pre, n))
    for cap in (0, 1, 2):
        for alpha in ("sr", "cl", "tr", "ca"):
            for (pre, n) in ((0, 4), (5, 5), (3, 5), (4, 5)):
                if (cap, alpha, pre, n) not in quick_sel:
                    thorough.append(mpmc_hist(tag, pbit, cap, alpha, pre, n, tier_quick=False))
        thorough.append(mpmc_hist(tag, pbit, cap, "all", 0, 4, tier_quick=False))
        thorough.append(mpmc_hist(tag, pbit, cap, "sr", 5, 5, tier_quick=False, lock="check"))
        thorough.append(mpmc_hist(tag, pbit, cap, "sr", 5, 6, tier_quick=False, bonus=True))
        thorough.append(mpmc_hist(tag, pbit, cap, "cl", 3, 6, tier_quick=False, bonus=True))
    shared_job = H(LIFE, "shared_mpmc_min_%s" % tag, "hold", replay=("shared_mpmc_min", 0), mask=P(pbit), est_s=280, est_gb=20, mem_gb=30,
                   timeout=(1500 if pid == "C09" else 3000),
                   bounds="SHARED (Arc) mpmc send/receive futures, capacity 1, straight-line scenario: optional pre-filled buffer, a send future "
                          "(completes or parks), optional close(), a receive future, the parked sender's re-poll, try_receive of the rest")
    if pid == "C09":
        quick.append(shared_job)
    else:
        thorough.append(shared_job)
    quick += list(extra_quick)
    thorough = quick + thorough + list(extra_thorough)
    return {"quick": quick, "thorough": thorough, "functions": MPMC_FUNCS,
            "instantiations": ["GenericChannel<NoopLock,Tag,ArrayBuf<Tag,[Tag;C]>> for C in {0,1,2}", "MutexType=CheckLock (thorough)"],
            "bounds": {"quick": {"futures": "2 send + 2 receive", "capacities": "E-STEP 0,1,2; E-HIST 0,1 (+2 selected)", "N_ops": "4 (5 with 2-operation prefix partitions)",
                                 "step_history_length": "unbounded (inductive)"},
                       "thorough": {"capacities": "0,1,2", "N_ops": "5 (6 bonus)", "alphabets": "sr, cl, tr, ca, all"}},
            "assumptions": ["try_send is not used on capacity 0 (documented panic)",
                            "shared (Arc) mpmc futures are thin wrappers over the same ChannelState code; they are driven by one straight-line scenario "
                            "(life::shared_mpmc_min_*: quick for C09 and C17, thorough for C08/C10), by life_mpmc_discard and by the C17 repoll harnesses"]}


MPMC_WITNESSES = [
    H(MPMC, "witness_rendezvous_c0", "witness", replay=("mpmc_hist_noop", 0 | (5 << 4) | ((1 | 2) << 12)), mask=PALL, witness_bit=1, est_s=150, est_gb=3.5,
      bounds="witness twin (capacity 0): a receive takes the value of a parked sender"),
    H(MPMC, "witness_notified_dropped_c1", "witness", replay=("mpmc_hist_noop", 1 | (4 << 4) | ((1 | 2 | 4 | 8) << 12)), mask=PALL, witness_bit=2, est_s=150, est_gb=3.5,
      bounds="witness twin (capacity 1): a notified receiver is dropped and the wake-up is passed on"),
]


def c01_prop():
    full = dict(profile="full")
    quick = [
        H(MUTEX, "step_c01", "step", est_s=60, bounds="E-STEP mutex K=3: queue = exactly the live waiting futures, no links outside, all Kani default checks", **full),
        H(MUTEX, "step_c01_check", "step", est_s=60, bounds="same, MutexType=CheckLock (one non-reentrant internal lock acquisition per call)", **full),
        H(SEM, "step_c01", "step", est_s=90, bounds="E-STEP semaphore K=3, amounts 0..3", **full),
        H(SEM, "step_c01_check", "step", est_s=90, bounds="E-STEP semaphore, CheckLock", **full),
        H(EVENT, "step_c01", "step", est_s=40, bounds="E-STEP event K=3", **full),
        H(EVENT, "step_c01_check", "step", est_s=40, bounds="E-STEP event, CheckLock", **full),
        H(ONESHOT, "step_c01", "step", est_s=40, bounds="E-STEP oneshot K=3 (incl. 'Notified is never reached' = unreachable!() stays unreachable)", **full),
        H(ONESHOT_BC, "step_c01", "step", est_s=40, bounds="E-STEP oneshot-broadcast K=3", **full),
        H(STATE, "step_c01", "step", est_s=40, bounds="E-STEP state-broadcast K=3, ids full u64", **full),
        H(TIMER, "expired_drop_c01", "hold", replay=("timer_expired_drop", 0), mask=P(1), est_s=220, est_gb=5, timeout=1500,
          bounds="two timers, straight line: both registered, the earlier one expired by check_expirations() and then DROPPED unpolled: the other "
                 "one is still in the heap, no panic (fast profile)"),
        H(TIMER, "step_c01_poll", "step", est_s=150, est_gb=2.5, bounds="E-STEP timer K=4: heap = exactly the live registered futures (structural validator), poll", **full),
        H(TIMER, "step_c01_drop", "step", est_s=400, est_gb=3, timeout=1500, bounds="E-STEP timer K=4, drop (heap removal from ANY tree shape)", **full),
        H(TIMER, "step_c01_check2", "step", est_s=400, est_gb=4, timeout=1500, bounds="E-STEP check_expirations over 2 timer futures: expired ones unlinked, pending ones linked", **full),
    ]
    for cap in (0, 1, 2):
        for cn in ("ps", "pr", "dc", "tc"):
            quick.append(H(MPMC, "step_c01_c%d_%s" % (cap, cn), "step", est_s=80, est_gb=1.5,
                           bounds="E-STEP mpmc capacity %d, class %s: both queues = exactly the live registered futures, stored wakers" % (cap, cn), **full))
    # a dropped future's task is never woken again (functional consequence of "no dangling waiter"), deeper, fast profile
    quick += [
        H(MUTEX, "hist_c01_p3_n7", "hold", replay=("mutex_hist_noop", 2 | (3 << 2)), mask=P(1), est_s=120, bounds="E-HIST mutex N=7 (3-poll prefix): the task of a dropped future is never woken; no panic"),
        H(SEM, "hist_c01_x_p1s_n5", "hold", replay=("sem_hist_noop", sem_cfg(2, 1, 0, 1)), mask=P(1), est_s=300, est_gb=3.5, timeout=1500, bounds="E-HIST semaphore 'steal' partition N=5: dropped futures never woken; no panic"),
        H(EVENT, "hist_c01_n5", "hold", replay=("event_hist_noop", 2), mask=P(1), est_s=100, bounds="E-HIST event N=5: dropped futures never woken"),
        H(ONESHOT_BC, "hist_c01_n5", "hold", replay=("oneshot_bc_hist_noop", 0), mask=P(1), est_s=100, bounds="E-HIST oneshot-broadcast N=5: dropped futures never woken"),
    ]
    # contract-respecting histories never panic / never double-lock (E-HIST, all default checks)
    quick += [
        H(MUTEX, "hist_c01_n4", "hold", replay=("mutex_hist_noop", 2), mask=P(1), est_s=120, bounds="E-HIST mutex N=4, all Kani default checks (panics, pointer checks)", **full),
        H(SEM, "hist_c01_x_p2_n5", "hold", replay=("sem_hist_noop", sem_cfg(2, 2)), mask=P(1), est_s=300, est_gb=3.5, timeout=1500,
          bounds="E-HIST semaphore N=5 (2 fixed polls + 3): a completed future is never a member of the wait queue (checked on the queue itself)"),
        H(SEM, "hist_c01_x_p0_n3", "hold", replay=("sem_hist_noop", sem_cfg(2, 0)), mask=P(1), est_s=200, est_gb=3, bounds="E-HIST semaphore N=3, all default checks", **full),
        H(EVENT, "hist_c01_n5_check", "hold", replay=("event_hist_check", 2), mask=P(1), est_s=200, bounds="E-HIST event N=5, CheckLock, all default checks", **full),
        H(ONESHOT, "hist_c01_n5", "hold", replay=("oneshot_hist_noop", 0), mask=P(1), est_s=200, bounds="E-HIST oneshot N=5, all default checks", **full),
        H(STATE, "hist_c01_n5", "hold", replay=("state_hist_noop", 0), mask=P(1), est_s=300, bounds="E-HIST state-broadcast N=5, all default checks", **full),
        H(TIMER, "hist_c01_k3_drop_a4", "hold", replay=("timer_hist_noop", 4 | (1 << 11)), mask=P(1), est_s=300, est_gb=3, timeout=1500, bounds="E-HIST timer 4 operations {poll, drop, advance}: dropped futures never woken, no panic"),
    ]
    thorough = quick + [
        H(MUTEX, "hist_c01_n6_check", "hold", replay=("mutex_hist_check", 2), mask=P(1), est_s=900, timeout=3000, bounds="E-HIST mutex N=6 CheckLock", **full),
        H(SEM, "hist_c01_x_p2_n5_check", "hold", replay=("sem_hist_check", sem_cfg(2, 2)), mask=P(1), est_s=1500, timeout=3300, est_gb=4, bounds="E-HIST semaphore N=5 CheckLock", **full),
        H(ONESHOT_BC, "hist_c01_n5_check", "hold", replay=("oneshot_bc_hist_check", 0), mask=P(1), est_s=600, timeout=3000, bounds="E-HIST oneshot-broadcast N=5 CheckLock", **full),
        H(STATE, "hist_c01_n5_check", "hold", replay=("state_hist_check", 0), mask=P(1), est_s=900, timeout=3000, bounds="E-HIST state-broadcast N=5 CheckLock", **full),
        H(TIMER, "hist_c01_k3_drop_a5", "hold", replay=("timer_hist_noop", 5 | (1 << 11)), mask=P(1), est_s=1500, timeout=3300, est_gb=4, bounds="E-HIST timer 5 operations"),
        H(MPMC, "step_c01_c1_any_check", "step", est_s=300, timeout=3000, bounds="E-STEP mpmc capacity 1, all classes, CheckLock", **full),
        mpmc_hist("c01", 1, 1, "sr", 0, 4, tier_quick=False),
        mpmc_hist("c01", 1, 0, "cl", 3, 5, tier_quick=False),
        mpmc_hist("c01", 1, 1, "sr", 5, 5, tier_quick=False, lock="check"),
    ]
    for j in thorough:
        if j["harness"].startswith(MPMC) and "hist_c01" in j["harness"]:
            j["profile"] = "full"
            j["est_gb"] = 6
    return {"quick": quick, "thorough": thorough,
            "functions": MUTEX_FUNCS + SEM_FUNCS + MPMC_FUNCS + ONESHOT_FUNCS + STATE_FUNCS + ["timer::*", "manual_reset_event::*", "PairingHeap::*", "LinkedList::*"],
            "instantiations": ["every primitive over NoopLock and over the discipline-checking CheckLock"],
            "bounds": {"K_live_futures": "3 (timer 4, mpmc 2+2)", "step_history_length": "unbounded (inductive)", "hist_N": "3-5 with all Kani default checks"},
            "assumptions": ["a dropped future's memory stays allocated in the harness (stack slot in ManuallyDrop): dangling waiters are detected by the "
                            "queue-membership oracle (queue = exactly the live waiting futures, each once), not by a use-after-free fault",
                            "the shared (Arc) wrappers reuse the same state machines; they are driven in the C11 lifecycle and C17/C18 harnesses"],
            }


def c17_prop():
    quick = []
    for (mod, what) in ((MUTEX, "mutex"), (SEM, "semaphore"), (EVENT, "event"), (ONESHOT, "oneshot"), (ONESHOT_BC, "oneshot-broadcast"),
                        (STATE, "state-broadcast")):
        quick.append(H(mod, "step_c17", "step", est_s=60, est_gb=2, bounds="E-STEP %s: is_terminated() == 'completed' after any operation from any state" % what))
    quick.append(H(TIMER, "step_c17_poll", "step", est_s=100, est_gb=2, bounds="E-STEP timer K=4: is_terminated() after poll from any state"))
    quick.append(H(TIMER, "step_c17_drop", "step", est_s=200, est_gb=3, timeout=1500, bounds="E-STEP timer K=3: is_terminated() of the others after a drop"))
    quick += [H(m, n, "panic", profile="full", est_s=15, bounds="poll after completion must panic (sentinel after the second poll unreachable)")
              for (m, n) in ((MUTEX, "repoll_panics"), (SEM, "repoll_panics"), (EVENT, "repoll_panics"), (ONESHOT, "repoll_panics"),
                             (ONESHOT_BC, "repoll_panics"), (STATE, "repoll_panics"), (TIMER, "repoll_panics"), (TIMER, "repoll_panics_send_facade"),
                             (MPMC, "repoll_panics_send"), (MPMC, "repoll_panics_receive"), (LIFE, "repoll_panics_shared_send"),
                             (LIFE, "repoll_panics_shared_receive"), (LIFE, "repoll_panics_shared_state"), (SEMSH, "repoll_panics"))]
    for cap in (0, 1):
        for cn in ("ps", "pr", "dc"):
            quick.append(H(MPMC, "step_c17_c%d_%s" % (cap, cn), "step", est_s=60, est_gb=1.5, bounds="E-STEP mpmc capacity %d class %s: is_terminated()" % (cap, cn)))
    quick += [
        H(MUTEX, "hist_c17_n5", "hold", replay=("mutex_hist_noop", 2), mask=P(17), est_s=90, bounds="E-HIST mutex N=5: is_terminated() after every operation"),
        H(SEM, "hist_c17_x_p2_n4", "hold", replay=("sem_hist_noop", sem_cfg(2, 2)), mask=P(17), est_s=150, est_gb=3, bounds="E-HIST semaphore N=4 (2 fixed polls + 2)"),
        H(EVENT, "hist_c17_n5", "hold", replay=("event_hist_noop", 2), mask=P(17), est_s=80, bounds="E-HIST event N=5"),
        H(ONESHOT, "hist_c17_n5", "hold", replay=("oneshot_hist_noop", 0), mask=P(17), est_s=80, bounds="E-HIST oneshot N=5"),
        H(STATE, "hist_c17_n5", "hold", replay=("state_hist_noop", 0), mask=P(17), est_s=150, bounds="E-HIST state-broadcast N=5"),
        H(TIMER, "hist_c17_k3_drop_a4", "hold", replay=("timer_hist_noop", 4 | (1 << 11)), mask=P(17), est_s=250, est_gb=3, timeout=1500, bounds="E-HIST timer 4 operations {poll, drop, advance}"),
        H(MPMC, "hist_c17_c1_ss_p1_n4", "hold", replay=("mpmc_hist_noop", mpmc_cfg(1, "ss", 1, 1)), mask=P(17), est_s=400, est_gb=5, timeout=1500,
          bounds="E-HIST mpmc capacity 1 with a ChannelStream (alphabet: poll send, poll receive/stream, close): items = what successive receives return, "
                 "None once closed and drained, terminated from then on; N=4 (first operation fixed)"),
        mpmc_hist("c17", 17, 0, "ca", 5, 5),
        mpmc_hist("c17", 17, 1, "ca", 3, 5),
        H(MPMC, "step_c17_c2_dc", "step", est_s=60, est_gb=1.5, bounds="E-STEP mpmc capacity 2 drop/cancel: cancel() terminates the send future in every state"),
        H(TIMER, "facade_c17", "hold", replay=("timer_facade", 0), mask=P(17), est_s=60, est_gb=2.5,
          bounds="thread-safe Timer facade: is_terminated() is false until Ready was yielded - also between check_expirations() and the re-poll"),
        H(LIFE, "shared_mpmc_min_c17", "hold", replay=("shared_mpmc_min", 0), mask=P(17), est_s=280, est_gb=20, mem_gb=30, timeout=1500,
          bounds="shared (Arc) mpmc send/receive futures: is_terminated() over the straight-line scenario (parked sender served / closed)"),
        H(SEMSH, "scenario_c17", "hold", replay=("semsh_scenario", 0), mask=P(17), est_s=160, est_gb=10, mem_gb=24, timeout=1500,
          bounds="shared semaphore acquire future (Option<Arc> taken out for every poll): is_terminated() over the straight-line scenario"),
        H(LIFE, "shared_stream_min_c17", "hold", replay=("shared_stream_min", 0), mask=P(17), est_s=200, est_gb=14, mem_gb=26, timeout=1500,
          bounds="SharedStream (shared mpmc receiver as a stream): 0/1 buffered value, open/closed, two poll_next calls: items, None exactly when closed "
                 "and drained, is_terminated() <=> None was yielded, None again afterwards (straight-line scenario, 4 cases decided symbolically)"),
        H(LIFE, "life_c17_state_n3", "hold", replay=("life_state", 0), mask=P(17), est_s=300, est_gb=8, timeout=1500,
          bounds="shared state-broadcast receive future: is_terminated() over handle clone/drop histories, 3 operations"),
    ]
    thorough = quick + [
        H(SEM, "hist_c17_x_p2_n5", "hold", replay=("sem_hist_noop", sem_cfg(2, 2)), mask=P(17), est_s=500, est_gb=3, timeout=3000, bounds="E-HIST semaphore N=5"),
        H(MPMC, "hist_c17_c0_ss_p0_n4", "hold", replay=("mpmc_hist_noop", mpmc_cfg(0, "ss", 0, 1)), mask=P(17), est_s=700, est_gb=5, timeout=3000,
          bounds="E-HIST mpmc capacity 0 with a ChannelStream, N=4 (took 605 s in the quick tier: moved here)"),
        H(MUTEX, "hist_c17_n7", "hold", replay=("mutex_hist_noop", 2), mask=P(17), est_s=900, timeout=3000, bounds="E-HIST mutex N=7"),
        H(EVENT, "hist_c17_n7", "hold", replay=("event_hist_noop", 2), mask=P(17), est_s=900, timeout=3000, bounds="E-HIST event N=7"),
        H(ONESHOT_BC, "hist_c17_n7", "hold", replay=("oneshot_bc_hist_noop", 0), mask=P(17), est_s=900, timeout=3000, bounds="E-HIST oneshot-broadcast N=7"),
        H(STATE, "hist_c17_n7", "hold", replay=("state_hist_noop", 0), mask=P(17), est_s=900, timeout=3000, bounds="E-HIST state-broadcast N=7"),
        H(MPMC, "hist_c17_c1_ss_p1_n5", "hold", replay=("mpmc_hist_noop", mpmc_cfg(1, "ss", 1, 1)), mask=P(17), est_s=1500, est_gb=6, timeout=3300, bounds="E-HIST mpmc stream N=5"),
        H(MPMC, "hist_c17_c1_st_p1_n5", "hold", replay=("mpmc_hist_noop", mpmc_cfg(1, "st", 1, 1)), mask=P(17), est_s=3000, est_gb=8, timeout=3400, bonus=True, bounds="E-HIST mpmc stream with try_send/drop (bonus)"),
        H(SEMSH, "hist_c17_n4", "hold", replay=("semsh_hist_noop", 2), mask=P(17), est_s=400, est_gb=5, timeout=3000,
          bounds="shared semaphore acquire future: is_terminated() after every operation, N=4 (Option<Arc> restored after a Pending poll)"),
    ]
    return {"quick": quick, "thorough": thorough, "functions": ["every Future::poll / FusedFuture::is_terminated / Stream::poll_next / FusedStream::is_terminated impl of the crate"],
            "instantiations": ["all future types, borrowed; shared send/receive/state futures (repoll + lifecycle); ChannelStream"],
            "bounds": {"K_live_futures": 3, "hist_N": "4-5 (7 thorough)", "step_history_length": "unbounded (inductive)"},
            "assumptions": ["SharedStream is not driven (same code shape as ChannelStream over the shared receive future)"]}


def c18_prop():
    st = dict(kani_flags=["-Z", "stubbing"])
    quick = [
        H(LIFE, "c18_selftest", "hold", est_s=10, bounds="the allocator stubs are live: armed Box/Vec allocations are counted", **st),
        H(MUTEX, "hist_c18_n5", "hold", replay=("mutex_hist_noop", 2), mask=P(18), est_s=100, bounds="E-HIST mutex N=5 with counting allocator stubs", **st),
        H(SEM, "hist_c18_p2_n4", "hold", replay=("sem_hist_noop", sem_cfg(2, 2)), mask=P(18), est_s=150, est_gb=3, bounds="E-HIST semaphore N=4 (2 fixed polls + 2)", **st),
        H(EVENT, "hist_c18_n5", "hold", replay=("event_hist_noop", 2), mask=P(18), est_s=80, bounds="E-HIST event N=5", **st),
        H(ONESHOT, "hist_c18_n5", "hold", replay=("oneshot_hist_noop", 0), mask=P(18), est_s=100, bounds="E-HIST oneshot N=5", **st),
        H(ONESHOT_BC, "hist_c18_n5", "hold", replay=("oneshot_bc_hist_noop", 0), mask=P(18), est_s=100, bounds="E-HIST oneshot-broadcast N=5", **st),
        H(STATE, "hist_c18_n5", "hold", replay=("state_hist_noop", 0), mask=P(18), est_s=200, bounds="E-HIST state-broadcast N=5", **st),
        H(TIMER, "hist_c18_stub_k3_drop_a4", "hold", replay=("timer_hist_noop", 4 | (1 << 11)), mask=P(18), est_s=300, est_gb=3, timeout=1500, bounds="E-HIST timer 4 operations {poll, drop, advance}", **st),
        H(MPMC, "hist_c18_c1_sr_p3_n5", "hold", replay=("mpmc_hist_noop", mpmc_cfg(1, "sr", 3)), mask=P(18), est_s=200, est_gb=4,
          bounds="E-HIST mpmc capacity 1, both send futures polled first (one stored, one parked), then 3 operations: reaches 'a receive frees "
                 "the slot and the parked sender's value is moved in'", **st),
        H(MPMC, "hist_c18_c1_sr_p5_n5", "hold", replay=("mpmc_hist_noop", mpmc_cfg(1, "sr", 5)), mask=P(18), est_s=300, est_gb=4, bounds="E-HIST mpmc capacity 1", **st),
        H(MPMC, "hist_c18_c0_cl_p3_n5", "hold", replay=("mpmc_hist_noop", mpmc_cfg(0, "cl", 3)), mask=P(18), est_s=300, est_gb=4, bounds="E-HIST mpmc capacity 0", **st),
        H(MPMC, "hist_c18_c2_tr_p0_n4", "hold", replay=("mpmc_hist_noop", mpmc_cfg(2, "tr", 0)), mask=P(18), est_s=300, est_gb=4, bounds="E-HIST mpmc capacity 2", **st),
        H(LIFE, "life_c18_oneshot_bc_n3", "hold", replay=("life_oneshot_bc", 0), mask=P(18), est_s=300, est_gb=8, timeout=1500,
          bounds="shared oneshot-broadcast: handle clone/drop and polling after construction", **st),
        H(LIFE, "shared_stream_min_c18", "hold", replay=("shared_stream_min", 0), mask=P(18), est_s=170, est_gb=14, mem_gb=26, timeout=1500,
          bounds="SharedStream over a shared ArrayBuf channel: two poll_next calls (item / pending / end) never reach the allocator", **st),
        H(MPMC, "clear_noalloc_c18", "hold", replay=("mpmc_clear_noalloc", 0), mask=P(18) | P(8), est_s=30, est_gb=2,
          bounds="ChannelState::clear() (run by Drop of the last shared receiver) on a FixedHeapBuf channel with 0-2 buffered values, open or closed: "
                 "every value dropped once, allocator never reached (function level)", **st),
        H(RING, "fixed_c18_c1_n3", "hold", replay=("ring_hist_fixed", 1), mask=P(18), est_s=20, bounds="FixedHeapBuf capacity 1: 3 push/pop operations after with_capacity() never reach the allocator", **st),
        H(RING, "fixed_c18_c2_n3", "hold", replay=("ring_hist_fixed", 2), mask=P(18), est_s=30, bounds="FixedHeapBuf capacity 2, 3 operations (fills the buffer completely)", **st),
        H(RING, "array_c18_c2_n4", "hold", replay=("ring_hist_array", 2), mask=P(18), est_s=20, bounds="ArrayBuf capacity 2, 4 operations", **st),
    ]
    thorough = quick + [
        H(SEM, "hist_c18_p2_n5", "hold", replay=("sem_hist_noop", sem_cfg(2, 2)), mask=P(18), est_s=500, est_gb=3, timeout=3000, bounds="E-HIST semaphore N=5", **st),
        H(LIFE, "life_c18_state_n3", "hold", replay=("life_state", 0), mask=P(18), est_s=600, est_gb=10, timeout=3000, bounds="shared state-broadcast handles", **st),
    ]
    return {"quick": quick, "thorough": thorough,
            "functions": ["alloc::alloc::alloc / realloc (replaced by counting stubs) as reached from every operation of every primitive"],
            "instantiations": ["borrowed flavours of all primitives over NoopLock; shared oneshot-broadcast / state-broadcast handles and futures"],
            "bounds": {"hist_N": "4-5", "K_live_futures": 3},
            "assumptions": ["frees are not observable in the model (Kani reaches the deallocator through its own model, not through alloc::alloc::dealloc); "
                            "the native replayer counts allocations AND frees with a counting #[global_allocator]",
                            "wakers and payloads of the harness do not allocate", "GrowingHeapBuf (the documented exception) is not driven",
                            "FixedHeapBuf is driven directly (RingBuf API) at capacity 1 and 2, not through a channel; larger capacities rest on VecDeque::with_capacity(cap) reserving >= cap"],
            "technique": DEFAULT_TECHNIQUE + "; allocator entry points replaced by counting stubs (cargo kani -Z stubbing)"}


def _c16(prop, tier, seed):
    import os, sys
    sys.path.insert(0, os.path.join(os.path.dirname(os.path.abspath(__file__)), "c16"))
    import check_c16
    return check_c16.run(prop, tier, seed)


CUSTOM = {"C16": _c16}


def _fix_life_estimates():
    import re as _re
    for _pid, _spec in PROPS.items():
        for _tier in ("quick", "thorough"):
            if not isinstance(_spec.get(_tier), list):
                continue
            for _j in _spec[_tier]:
                _m = _re.search(r"::life::proofs::life_(?:witness_)?(?:c1[78]_)?(?:oneshot_bc|oneshot|state|mpmc)_n(\d)", _j["harness"])
                if _m:
                    _gb = {3: 9, 4: 14, 5: 18, 6: 24}.get(int(_m.group(1)), 10)
                    _j["est_gb"] = max(float(_j.get("est_gb", 0)), _gb)
                    _j["mem_gb"] = max(float(_j.get("mem_gb", 0)), 30)
PROPS["C08"] = mpmc_prop("C08", 8, [(0, "sr", 0, 4), (1, "sr", 0, 4), (1, "tr", 0, 4), (0, "ca", 0, 4), (1, "ca", 0, 4), (1, "cl", 3, 5), (0, "cl", 3, 5), (2, "tr", 0, 4)],
                        extra_quick=MPMC_WITNESSES[:1] + [
                            H(LIFE, "shared_stream_min_c08", "hold", replay=("shared_stream_min", 0), mask=P(8), est_s=170, est_gb=14, mem_gb=26, timeout=1500,
                              bounds="SharedStream: 0/1 buffered value; closed by nobody / by the sender / by the stream's own close(); the accepted value "
                                     "is still delivered by the next poll_next"),
                            H(MPMC, "zst_array_c2_c08", "hold", replay=("mpmc_zst_array", 2), mask=P(8), est_s=15, est_gb=1,
                              bounds="zero-sized payload WITH a Drop impl over ArrayBuf capacity 2: values still buffered are dropped exactly once with the channel"),
                            H(MPMC, "zst_fixedheap_c2_c08", "hold", replay=("mpmc_zst_fixedheap", 2), mask=P(8), est_s=15, est_gb=1,
                              bounds="same over FixedHeapBuf"),
                            H(LIFE, "life_mpmc_discard_c08", "hold", replay=("life_mpmc_discard", 0), mask=P(8), est_s=40,
                              bounds="shared mpmc (public API): capacity 2, 0-2 buffered values, optional receiver clone, optional explicit close, receiver "
                                     "handles dropped in a symbolic order: buffered values survive while a receiver handle is alive")])
PROPS["C09"] = mpmc_prop("C09", 9, [(0, "sr", 0, 4), (1, "sr", 0, 4), (1, "tr", 0, 4), (2, "tr", 0, 4), (0, "sr", 5, 5), (1, "sr", 3, 5), (2, "sr", 3, 5), (1, "ca", 0, 4),
                                    (1, "sr", 6, 5), (1, "tr", 6, 5), (2, "tr", 6, 6)],
                        extra_quick=MPMC_WITNESSES[:1] + [
                            H(MPMC, "zst_growing_c0", "hold", replay=("mpmc_zst_growing", 0), mask=P(9), est_s=15, est_gb=1,
                              bounds="GrowingHeapBuf (the buffer of the shared std channels) with capacity 0: rendezvous - a send never completes without a receiver"),
                            H(MPMC, "zst_growing_c2", "hold", replay=("mpmc_zst_growing", 2), mask=P(9), est_s=15, est_gb=1,
                              bounds="GrowingHeapBuf limit 2: capacity bound over 4 try_* operations + one send future"),
                            H(MPMC, "zst_fixedheap_c2", "hold", replay=("mpmc_zst_fixedheap", 2), mask=P(9), est_s=15, est_gb=1,
                              bounds="capacity bound with a ZERO-SIZED payload over FixedHeapBuf (VecDeque reports capacity usize::MAX): capacity 2, "
                                     "4 try_send/try_receive operations + one send future"),
                            H(MPMC, "zst_fixedheap_c0", "hold", replay=("mpmc_zst_fixedheap", 0), mask=P(9), est_s=15, est_gb=1,
                              bounds="zero-sized payload over FixedHeapBuf, capacity 0: a send never completes without a receiver"),
                            H(MPMC, "zst_array_c2", "hold", replay=("mpmc_zst_array", 2), mask=P(9), est_s=15, est_gb=1,
                              bounds="zero-sized payload over ArrayBuf, capacity 2")])
PROPS["C10"] = mpmc_prop("C10", 10, [(0, "sr", 0, 4), (1, "sr", 0, 4), (0, "sr", 5, 5), (1, "sr", 4, 5), (1, "cl", 3, 5), (0, "cl", 3, 5), (2, "sr", 4, 5), (1, "tr", 0, 4),
                                     (1, "cl", 4, 5), (2, "tr", 4, 5), (1, "tr", 6, 5)],
                        extra_quick=MPMC_WITNESSES + [
                            H(LIFE, "shared_waker_mpmc", "hold", replay=("shared_waker_mpmc", 0), mask=P(10), est_s=250, est_gb=18, mem_gb=30, timeout=1500,
                              bounds="shared (Arc) mpmc receive future: polled with waker A, re-polled with B (same data pointer, other vtable), "
                                     "optionally A again; the implicit close (last sender dropped) wakes the LATEST one; then None")])
PROPS["C11"] = c11_prop()
PROPS["C12"] = recv_chan_prop("C12", 12, [(ONESHOT, "oneshot", "oneshot", "witness_second_receive_n6", 3),
                                          (ONESHOT_BC, "oneshot_bc", "oneshot-broadcast", "witness_second_receive_n6", 3)],
                              "GenericOneshotChannel / GenericOneshotBroadcastChannel", ONESHOT_FUNCS,
                              extra_quick=[
                                  H(LIFE, "shared_waker_oneshot", "hold", replay=("shared_waker_oneshot", 0), mask=P(12), est_s=10, est_gb=1,
                                    bounds="shared oneshot receive future: polled with waker A, re-polled with B (same data pointer, other vtable), "
                                           "optionally A again; the implicit close wakes the LATEST one; then None"),
                                  H(LIFE, "shared_waker_oneshot_bc", "hold", replay=("shared_waker_oneshot_bc", 0), mask=P(12), est_s=10, est_gb=1,
                                    bounds="same for the shared oneshot-broadcast receive future"),
                                  H(LIFE, "life_oneshot_n3", "hold", replay=("life_oneshot", 0), mask=P(11), est_s=120, est_gb=4,
                                    bounds="shared oneshot (Arc handles): a receive future pending when the last handle of a side is dropped is woken and "
                                           "resolves to None; 3 drop operations"),
                                  H(LIFE, "life_oneshot_bc_n3", "hold", replay=("life_oneshot_bc", 0), mask=P(11), est_s=140, est_gb=5,
                                    bounds="shared oneshot-broadcast: same, 1 sender + up to 2 receiver handles, 3 clone/drop operations")])
PROPS["C13"] = recv_chan_prop("C13", 13, [(STATE, "state", "state-broadcast", "witness_follower_n6", 3)],
                              "GenericStateBroadcastChannel", STATE_FUNCS,
                              extra_quick=[
                                  H(LIFE, "shared_waker_state", "hold", replay=("shared_waker_state", 0), mask=P(13), est_s=10, est_gb=1,
                                    bounds="shared (Arc) StateReceiveFuture: polled with waker A, re-polled with B (same data pointer, other vtable), "
                                           "optionally A again; the implicit close wakes the LATEST one; then None"),
                                  H(STATE, "contended_c13", "hold", replay=("state_contended", 0), mask=P(13), est_s=10, est_gb=1,
                                    bounds="thread-safe flavour (CheckLock) under modelled contention (a try_lock on the channel lock would fail once; "
                                           "lock() just waits): a poll still delivers a newer state or registers, the next send/close wakes it through "
                                           "its latest waker (wakers that differ only in the vtable)"),
                                  H(LIFE, "life_state_n3", "hold", replay=("life_state", 0), mask=P(11), est_s=200, est_gb=6,
                                    bounds="shared state broadcast (Arc handles): a waiting receiver is woken and resolves to None exactly when the last handle "
                                           "of a side is dropped; 2+2 handle slots, 3 clone/drop operations")])
PROPS["C14"] = c14_prop()
PROPS["C15"] = c15_prop()
PROPS["C19"] = c19_prop()
PROPS["C01"] = c01_prop()
PROPS["C17"] = c17_prop()
PROPS["C18"] = c18_prop()
PROPS["C01"]["level_note"] = DEFAULT_LEVEL_NOTE
PROPS["C20"] = c20_prop()
PROPS["C16"] = {
    "quick": [], "thorough": [], "engine": "trait-smt",
    "technique": "SMT (z3, cross-checked with cvc5) over trait-membership formulas regenerated from rustc's impl table; counterexamples replayed by rustc on a probe crate",
    "level_text": "Every Send/Sync/Unpin fact about the public types is a boolean formula over the unknown auto-trait facts of the lock, payload "
                  "and buffer type parameters. The formulas are regenerated on every run from rustc's own impl table (rustdoc JSON, which "
                  "includes the auto-trait impls rustc synthesised), the property's soundness and regression obligations are decided for ALL "
                  "assignments of the atoms by z3 and again by cvc5, the encoding is validated against rustc on a full matrix of witness "
                  "instantiations, and a satisfiable soundness query is reported only if rustc accepts the corresponding probe program.",
    "level_note": "Trusted: nightly rustdoc JSON, z3, cvc5, rustc's trait solver, the exposure rows in /verif/c16/spec.py (the specification). "
                  "Outside the claim: unsafe user code, lock types that are Sync but not Send, impl clauses outside the conjunctive fragment "
                  "(reported as inconclusive).",
    "design_ref": "DESIGN.md section 6 / C16",
}

# ---------------------------------------------------------------------------
# script decoders (for replay files and evidence samples)
# ---------------------------------------------------------------------------


def decode_mutex(cfg, script):
    out = []
    it = iter(script)
    pre, lockfirst, cfg = (cfg >> 2) & 3, (cfg >> 4) & 1, cfg & 3
    if cfg == 2:
        out.append("fair=%s" % bool(next(it, 0)))
    else:
        out.append("fair=%s" % (cfg == 1))
    ops = ([10] if lockfirst else []) + [2 * k for k in range(pre)] + list(it)
    for op in ops:
        if op < 6:
            out.append("poll lock-future #%d with waker %s (re-created first if dropped)" % (op // 2, "AB"[op % 2]))
        elif op < 9:
            out.append("drop lock-future #%d" % (op - 6))
        elif op == 9:
            out.append("drop guard (unlock)")
        elif op == 10:
            out.append("try_lock")
        else:
            out.append("<byte %d outside the alphabet>" % op)
    return out


def decode_sem(cfg, script):
    out = []
    it = iter(script)
    nx = lambda: next(it, 0)
    fm, pre, steal = cfg & 3, (cfg >> 2) & 3, (cfg >> 6) & 1
    fair = bool(nx()) if fm == 2 else (fm == 1)
    out.append("new(fair=%s, permits=%d)" % (fair, nx()))
    q = [nx(), nx(), nx()]
    out.append("acquire futures #0,#1,#2 request %s permits" % q)
    alive = [True] * 3
    step = 0
    while True:
        step += 1
        if step <= pre:
            op = (step - 1) * 2
        elif steal and step == pre + 1:
            op = 17
        elif steal and step == pre + 2:
            op = 18
        else:
            op = next(it, None)
            if op is None:
                break
        if op < 6:
            i = op // 2
            if not alive[i]:
                a = nx()
                out.append("re-create acquire future #%d requesting %d" % (i, a))
                alive[i] = True
            out.append("poll acquire-future #%d with waker %s" % (i, "AB"[op % 2]))
        elif op < 9:
            out.append("drop (cancel) acquire-future #%d" % (op - 6))
            alive[op - 6] = False
        elif op < 13:
            out.append("drop releaser %s" % ("of future #%d" % (op - 9) if op < 12 else "of try_acquire"))
        elif op < 17:
            out.append("disarm releaser %s" % ("of future #%d" % (op - 13) if op < 16 else "of try_acquire"))
        elif op == 17:
            out.append("release(%d)" % nx())
        elif op == 18:
            out.append("try_acquire(%d)" % nx())
        else:
            out.append("<byte %d outside the alphabet>" % op)
    return out


def decode_ring(cfg, script):
    return ["capacity %d" % cfg] + [("push Tag(next)" if b == 0 else "pop" if b == 1 else "<byte %d>" % b) for b in script]


def decode_raw(cfg, script):
    return ["cfg=%d" % cfg, "script bytes (stop flag / op / operands interleaved, see harness/inc): %s" % list(script)]


DECODERS = {"ring_zst_fixed": decode_ring, "ring_zst_growing": decode_ring, "ring_zst_array": decode_ring, "heap_wide": decode_raw, "ring_hist_array": decode_ring, "ring_hist_fixed": decode_ring, "ring_hist_growing": decode_ring,
            "list_hist": decode_raw, "list_buildstep": decode_raw, "heap_hist": decode_raw}
DECODERS_OLD = {"mutex_hist_noop": decode_mutex, "mutex_hist_check": decode_mutex,
            "sem_hist_noop": decode_sem, "sem_hist_check": decode_sem}
DECODERS.update(DECODERS_OLD)


def decode_event(cfg, script):
    it = iter(script)
    out = []
    if cfg & 3 == 2:
        out.append("new(is_set=%s)" % bool(next(it, 0)))
    else:
        out.append("new(is_set=%s)" % (cfg & 3 == 1))
    for op in it:
        if op < 6:
            out.append("poll wait-future #%d with waker %s (re-created first if dropped)" % (op // 2, "AB"[op % 2]))
        elif op < 9:
            out.append("drop wait-future #%d" % (op - 6))
        elif op == 9:
            out.append("set()")
        elif op == 10:
            out.append("reset()")
        else:
            out.append("<byte %d>" % op)
    return out


def decode_life(cfg, script):
    out = ["channel created: sender #0, receiver #0; a receive future is registered (pending) as observer"]
    it = iter(script)
    for op in it:
        j = next(it, 0)
        out.append(["clone a sender handle into slot #%d", "clone a receiver handle into slot #%d",
                    "drop sender handle #%d", "drop receiver handle #%d"][op % 4] % j + "; re-poll the observer")
    return out


DECODERS["semsh_hist_noop"] = decode_raw
DECODERS["semsh_hist_check"] = decode_raw
DECODERS["life_mpmc_discard"] = decode_raw
DECODERS["life_mpmc_discard_check"] = decode_raw
for _n in ("life_mpmc", "life_oneshot", "life_oneshot_bc", "life_state", "life_mpmc_check", "life_oneshot_bc_check", "life_state_check"):
    DECODERS[_n] = decode_life
def decode_recv(kind):
    def f(cfg, script):
        out = ["new()"]
        it = iter(script)
        alive = [True] * 3
        if kind == "state":
            out.append("receive futures #0,#1,#2 created requesting ids newer than %s" % [next(it, 0) % 4, next(it, 0) % 4, next(it, 0) % 4])
        for op in it:
            if op < 6:
                i = op // 2
                if not alive[i] and kind == "state":
                    out.append("re-create receive future #%d requesting an id newer than %d" % (i, next(it, 0)))
                alive[i] = True
                out.append("poll receive-future #%d with waker %s (re-created first if dropped)" % (i, "AB"[op % 2]))
            elif op < 9:
                out.append("drop receive-future #%d" % (op - 6))
                alive[op - 6] = False
            elif op == 9:
                out.append("send(next tag)")
            elif op == 10:
                out.append("close()")
            elif op == 11 and kind == "state":
                out.append("try_receive(id %d)" % next(it, 0))
            else:
                out.append("<byte %d>" % op)
        return out
    return f


for _n, _k in (("oneshot_hist_noop", "oneshot"), ("oneshot_hist_check", "oneshot"), ("oneshot_bc_hist_noop", "oneshot"),
               ("oneshot_bc_hist_check", "oneshot"), ("state_hist_noop", "state"), ("state_hist_check", "state")):
    DECODERS[_n] = decode_recv(_k)
def decode_timer(cfg, script):
    it = iter(script)
    n1, n2 = cfg & 15, (cfg >> 4) & 15
    wide = (cfg >> 12) & 1

    def val():
        if not wide:
            return next(it, 0)
        return sum(next(it, 0) << (8 * k) for k in range(8))
    out = ["clock=0; timer futures #0,#1,#2 with deadlines %s" % [val(), val(), val()]]
    alive = [True] * 3

    def cheap():
        op = next(it, None)
        if op is None:
            return False
        if op < 6:
            i = op // 2
            if not alive[i]:
                out.append("re-create timer future #%d with deadline %d" % (i, val()))
                alive[i] = True
            out.append("poll timer-future #%d with waker %s" % (i, "AB"[op % 2]))
        elif op < 9:
            out.append("drop timer-future #%d" % (op - 6))
            alive[op - 6] = False
        elif op == 9:
            out.append("advance clock by %d" % (val() if wide else 1 + next(it, 0)))
        else:
            out.append("<byte %d>" % op)
        return True

    def check():
        f = next(it, None)
        if f is None:
            return False
        if f & 1:
            out.append("check_expirations()")
        return True

    for phase_len in (n1, n2):
        for _ in range(phase_len):
            if not cheap():
                return out
        if not check():
            return out
    return out


DECODERS.update({"timer_hist_noop": decode_timer, "timer_hist_check": decode_timer, "timer_delay": decode_raw})
def decode_mpmc(cfg, script):
    cap, pre, stream = cfg & 3, (cfg >> 4) & 15, (cfg >> 8) & 1
    tab = [[], [0], [4], [0, 2], [4, 6], [0, 4], [4, 0]]
    ops = list(tab[pre]) if pre < 7 else []
    forced = len(ops)
    out = ["channel capacity %d%s; send futures #0,#1 carry tags 1,2" % (cap, ", receive slot #1 is a ChannelStream" if stream else "")]
    names = {14: "try_send(next tag)", 15: "try_receive()", 16: "close()"}
    for k, op in enumerate(ops + list(script)):
        pf = "(fixed by the partition) " if k < forced else ""
        if op < 4:
            out.append(pf + "poll send-future #%d with waker %s (re-created with the next tag if dropped)" % (op // 2, "AB"[op % 2]))
        elif op < 8:
            out.append(pf + "poll receive-%s #%d with waker %s" % ("stream" if stream and (op - 4) // 2 == 1 else "future", (op - 4) // 2, "AB"[op % 2]))
        elif op < 10:
            out.append("drop send-future #%d" % (op - 8))
        elif op < 12:
            out.append("drop receive-future #%d" % (op - 10))
        elif op < 14:
            out.append("cancel() send-future #%d" % (op - 12))
        else:
            out.append(names.get(op, "<byte %d>" % op))
    return out


DECODERS.update({"mpmc_hist_noop": decode_mpmc, "mpmc_hist_check": decode_mpmc, "mpmc_hist_fixedheap": decode_mpmc})
DECODERS.update({"event_hist_noop": decode_event, "event_hist_check": decode_event})


def decode_mpmc_zst(cfg, script):
    out = ["channel of zero-sized values, capacity %d" % (cfg & 3)]
    for b in script:
        out.append("try_send(ZVal)" if b & 1 else "try_receive()")
    out.append("poll a fresh send future")
    return out


def decode(name, cfg, script):
    f = DECODERS.get(name)
    if not f:
        return ["<no decoder for %s>" % name]
    try:
        return f(cfg, list(script))
    except Exception as e:  # decoding is cosmetic
        return ["<decode error %r>" % (e,)]


def match_known(known, prop, harness, decoded, msg):
    """A known (unrepaired) finding matches by role: property + substring of the oracle message
    + every 'requires' substring present in the decoded history."""
    for k in known:
        role = k.get("role", {})
        if role.get("oracle_contains", "\0") not in msg:
            continue
        text = "\n".join(decoded)
        if all(r in text for r in role.get("history_contains", [])):
            return k
    return None



DECODERS["mpmc_zst_fixedheap"] = decode_mpmc_zst
DECODERS["mpmc_zst_array"] = decode_mpmc_zst

DECODERS["shared_stream_min"] = lambda cfg, script: ["shared channel(1): try_send(1)=%s; closed by %s; into_stream(); poll_next twice" % (bool(script[0] & 1) if script else "?", ["nobody", "the sender (before into_stream)", "the stream's own close()"][script[1] % 3] if len(script) > 1 else "?")]
DECODERS["mpmc_clear_noalloc"] = decode_raw
DECODERS["semsh_scenario"] = decode_raw
DECODERS["shared_mpmc_min"] = lambda cfg, script: ["shared channel(1): pre-filled=%s; send future polled; close()=%s; receive future polled; sender re-polled; try_receive" % (bool(script[0] & 1) if script else "?", bool(script[1] & 1) if len(script) > 1 else "?")]
DECODERS["mpmc_handles"] = lambda cfg, script: [l.replace("a receive future is registered (pending) as observer", "no futures").replace("; re-poll the observer", "; probe closedness with try_receive/try_send") for l in decode_life(cfg, script)]

_fix_life_estimates()
DECODERS["mutex_waker_identity"] = decode_raw
DECODERS["sem_waker_identity"] = decode_raw
DECODERS["state_contended"] = decode_raw
DECODERS["timer_facade"] = decode_raw
DECODERS["ring_next_idx"] = lambda cfg, script: ["ArrayBuf over a user-defined RealArray of %d elements; ring position i = %s" % (cfg, script[0] if script else "?")]
DECODERS["mpmc_zst_growing"] = decode_mpmc_zst
DECODERS["shared_waker_mpmc"] = decode_raw
DECODERS["shared_waker_oneshot"] = decode_raw
DECODERS["shared_waker_oneshot_bc"] = decode_raw
DECODERS["shared_waker_state"] = decode_raw
DECODERS["shared_value_oneshot"] = decode_raw
DECODERS["shared_value_oneshot_bc"] = decode_raw
DECODERS["shared_value_state"] = decode_raw
DECODERS["timer_expired_drop"] = decode_raw

#!/usr/bin/env python3
"""Driver for the solver-based checks of futures-intrusive (see DESIGN.md section 8).

usage:  check.py <PROPERTY-ID> [--tier quick|thorough]
        check.py --replay <replay-file.json>

exit 0  every claimed query was decided "holds" (UNSAT) and every witness twin was reachable and replayed
exit 1  a solver counterexample reproduced natively against the real build:  VIOLATION property=<id> replay=<path>
exit 2  inconclusive (harness does not compile, cap hit on a claimed partition, vacuous harness,
        non-inductive step without a public-API counterexample, counterexample that does not reproduce)
"""
import concurrent.futures as cf
import hashlib
import json
import os
import random
import re
import resource
import shutil
import signal
import subprocess
import sys
import tempfile
import time

VERIF = os.path.dirname(os.path.abspath(__file__))
REPO = os.environ.get("VERIF_REPO", "/repo")
INC = os.path.join(VERIF, "harness", "inc")
REPLAY_DIR = os.path.join(VERIF, "replay")
OUT_DIR = os.path.join(VERIF, "out")

sys.path.insert(0, VERIF)
import registry  # noqa: E402

FAST_FLAGS = ["-Z", "unstable-options", "--no-memory-safety-checks", "--no-overflow-checks",
              "--no-assertion-reach-checks"]
PLAYBACK_FLAGS = ["-Z", "concrete-playback", "--concrete-playback=print"]


def base_env():
    env = dict(os.environ)
    env["RUSTFLAGS"] = "--cfg futures_intrusive_verif"
    env["FI_VERIF_INC"] = INC
    env["CARGO_NET_OFFLINE"] = "true"
    env["RUST_BACKTRACE"] = "0"
    env.pop("CARGO_TARGET_DIR", None)
    return env


def limit(mem_gb):
    def f():
        os.setsid()
        b = int(mem_gb * (1 << 30))
        resource.setrlimit(resource.RLIMIT_AS, (b, b))
    return f


def run(cmd, cwd, env, timeout, mem_gb, log):
    t0 = time.time()
    with open(log, "w") as lf:
        p = subprocess.Popen(cmd, cwd=cwd, env=env, stdout=lf, stderr=subprocess.STDOUT,
                             preexec_fn=limit(mem_gb))
        try:
            rc = p.wait(timeout=timeout)
            timed_out = False
        except subprocess.TimeoutExpired:
            try:
                os.killpg(p.pid, signal.SIGKILL)
            except ProcessLookupError:
                pass
            p.wait()
            rc, timed_out = -9, True
    return rc, timed_out, time.time() - t0


CHECK_RE = re.compile(
    r"^Check (\d+): (.+)\n\s+- Status: (\w+)\n\s+- Description: \"(.*)\"\n(?:\s+- Location: (.*)\n)?", re.M)


def parse_kani(text):
    checks = []
    for m in CHECK_RE.finditer(text):
        desc = m.group(4)
        if desc.startswith('"') and desc.endswith('"'):
            desc = desc[1:-1]
        checks.append({"n": int(m.group(1)), "name": m.group(2), "status": m.group(3),
                       "desc": desc, "loc": m.group(5) or ""})
    res = {"checks": checks}
    m = re.search(r"VERIFICATION:- (\w+)", text)
    res["verdict"] = m.group(1) if m else None
    m = re.search(r"^ \*\* (\d+) of (\d+) failed", text, re.M)
    res["summary_failed"] = int(m.group(1)) if m else None
    res["summary_total"] = int(m.group(2)) if m else None
    res["oom"] = "run out of memory" in text or "std::bad_alloc" in text or "Out of memory" in text
    res["compile_error"] = bool(re.search(r"^error(\[E\d+\])?:", text, re.M)) and not checks
    v = re.findall(r"^(\d+) variables, (\d+) clauses", text, re.M)
    res["sat_variables"] = int(v[-1][0]) if v else 0
    res["clauses"] = int(v[-1][1]) if v else 0
    res["solver_s"] = round(sum(float(x) for x in re.findall(r"^Runtime Solver: ([\d.]+)s", text, re.M)), 2)
    res["symex_s"] = round(sum(float(x) for x in re.findall(r"^Runtime Symex: ([\d.]+)s", text, re.M)), 2)
    res["solver_calls"] = len(re.findall(r"^Runtime decision procedure:", text, re.M))
    res["stubs"] = re.findall(r"- Stub: (.*)", text)
    return res


def parse_playback(text):
    """-> list of (check description, [bytes])"""
    out = []
    for blk in re.split(r"Concrete playback unit test for", text)[1:]:
        m = re.search(r"/// Check for `[^`]*`: \"(.*)\"", blk)
        desc = m.group(1) if m else ""
        if desc.startswith('"') and desc.endswith('"'):
            desc = desc[1:-1]
        body = blk.split("concrete_vals", 1)[1] if "concrete_vals" in blk else ""
        body = body.split("];", 1)[0]
        vals = []
        ok = True
        for v in re.findall(r"vec!\[(\d+(?:\s*,\s*\d+)*)\]", body):
            nums = [int(x) for x in v.split(",") if x.strip()]
            if len(nums) != 1:
                ok = False
            vals.extend(nums)
        # the first vec![ is the outer one when written on one line; guard against that
        if ok:
            out.append((desc, vals))
    return out


class Ctx:
    def __init__(self, prop, tier, seed):
        self.prop, self.tier, self.seed = prop, tier, seed
        self.scratch = tempfile.mkdtemp(prefix="fi-verif-%s-" % prop, dir=os.environ.get("VERIF_SCRATCH", "/tmp"))
        self.target = os.path.join(self.scratch, "target")
        self.logs = os.path.join(self.scratch, "logs")
        os.makedirs(self.logs)
        self.env = base_env()
        self.replayer = None

    def cleanup(self):
        if os.environ.get("VERIF_KEEP"):
            print("scratch kept at", self.scratch)
            return
        shutil.rmtree(self.scratch, ignore_errors=True)

    # ---- kani --------------------------------------------------------------
    def kani(self, harness, extra, timeout, mem_gb, tag):
        log = os.path.join(self.logs, "%s.%s.log" % (harness.replace("::", "__"), tag))
        cmd = ["cargo", "kani", "--target-dir", self.target, "--harness", harness, "--exact"] + extra
        rc, to, wall = run(cmd, REPO, self.env, timeout, mem_gb, log)
        text = open(log, errors="replace").read()
        r = parse_kani(text)
        r.update({"rc": rc, "timeout": to, "wall_s": round(wall, 1), "log": log, "harness": harness})
        return r

    def warm(self):
        """Compile the crate (and its dependencies) once with the hooks on."""
        log = os.path.join(self.logs, "warm.log")
        cmd = ["cargo", "kani", "--target-dir", self.target, "--only-codegen",
               "--harness", "verif::common::proofs::warm", "--exact"]
        rc, to, wall = run(cmd, REPO, self.env, 900, 16, log)
        text = open(log, errors="replace").read()
        ok = rc == 0
        return ok, wall, text

    # ---- native replayer ---------------------------------------------------
    def build_replayer(self, release=False):
        log = os.path.join(self.logs, "replayer-build%s.log" % ("-rel" if release else ""))
        tdir = os.path.join(self.scratch, "replay-target")
        src = REPLAY_DIR
        if REPO != "/repo":
            # checks may be pointed at another checkout (VERIF_REPO): build the replayer against that tree
            src = os.path.join(self.scratch, "replay-src")
            if not os.path.exists(src):
                shutil.copytree(REPLAY_DIR, src, ignore=shutil.ignore_patterns("target"))
                t = open(os.path.join(src, "Cargo.toml")).read().replace('path = "/repo"', 'path = "%s"' % REPO)
                open(os.path.join(src, "Cargo.toml"), "w").write(t)
        cmd = ["cargo", "build", "--offline", "--target-dir", tdir] + (["--release"] if release else [])
        rc, to, wall = run(cmd, src, self.env, 900, 16, log)
        if rc != 0:
            return None
        return os.path.join(tdir, "release" if release else "debug", "fi-replay")

    def replay(self, binary, name, cfg, mask, script):
        hexs = "".join("%02x" % b for b in script)
        try:
            p = subprocess.run([binary, name, str(cfg), str(mask), hexs], env=self.env,
                               stdout=subprocess.PIPE, stderr=subprocess.STDOUT, timeout=120)
            out = p.stdout.decode(errors="replace")
            rc = p.returncode
        except subprocess.TimeoutExpired:
            out, rc = "REPLAY-TIMEOUT", -9
        return rc, out


def short(h):
    parts = h.split("::")
    mod = [x for x in parts if x.startswith("verif_") or x == "life"]
    return (mod[0].replace("verif_", "") + "::" if mod else "") + parts[-1]


PANICS_ARE_OWN = ("C01", "C19", "C20")
# crate assertions that ARE the runtime check of a property's clause: the ring buffer's `assert!(self.can_push())` inside push() is
# the capacity bound of C09 ("at most `capacity` accepted-but-unreceived values") - the channel tried to store one value too many
OWN_CRATE_ASSERTIONS = {"C09": ("assertion failed: self.can_push()",)}


_ORACLE_IDS = re.compile(r"((?:C\d\d\+)*C\d\d) ")


def own_oracle(prop, desc):
    # oracle messages start with the id(s) of the property clause they decide: "C07 ..." or "C11+C12 ..."
    m = _ORACLE_IDS.match(desc)
    return bool(m) and prop in m.group(1).split("+")


def is_other_oracle(desc):
    return bool(_ORACLE_IDS.match(desc))


def classify(prop, job, r):
    """Decide one kani result. Returns dict(status=..., ...)"""
    info = {"status": None, "failed_own": [], "failed_other": [], "failed_panic": [], "covers_unsat": [], "notes": []}
    if r["compile_error"]:
        info["status"] = "compile_error"
        return info
    if r["timeout"]:
        info["status"] = "timeout"
        return info
    if r["oom"]:
        info["status"] = "oom"
        return info
    if r["verdict"] is None or not r["checks"]:
        info["status"] = "error"
        return info
    nfail = sum(1 for c in r["checks"] if c["status"] == "FAILURE" and ".cover." not in c["name"])
    if r.get("summary_failed") is None or r["summary_failed"] != nfail:
        # the textual report and what was parsed from it disagree: trust nothing
        info["status"] = "parse_mismatch"
        return info
    unwind_failed = any("unwinding assertion" in c["desc"] and c["status"] == "FAILURE" for c in r["checks"])
    unwind_undet = any("unwinding assertion" in c["desc"] and c["status"] not in ("SUCCESS", "FAILURE") for c in r["checks"])
    for c in r["checks"]:
        d, st, name = c["desc"], c["status"], c["name"]
        if ".cover." in name:
            if st != "SATISFIED":
                info["covers_unsat"].append(d)
            continue
        if st in ("SUCCESS", "UNREACHABLE"):
            continue
        if "unwinding assertion" in d:
            continue    # accounted for by unwind_failed / unwind_undet above
        if st == "FAILURE":
            if d == "WITNESS reached" or d.startswith("SENTINEL"):
                info.setdefault("special", []).append(d)
            elif own_oracle(prop, d):
                info["failed_own"].append(d)
            elif any(a in d for a in OWN_CRATE_ASSERTIONS.get(prop, ())):
                info["failed_own"].append(d)
            elif prop in PANICS_ARE_OWN and not is_other_oracle(d):
                # C01: panics, pointer checks, CheckLock discipline. C19/C20: the data structures' own debug assertions
                # about their links, and any fault inside them, are violations of "links stay mutually consistent"
                info["failed_own"].append(d)
            elif is_other_oracle(d):
                info["failed_other"].append(d)
            else:
                # a panic / arithmetic overflow / failed debug assertion of the crate itself (or a Kani check) that is not an
                # oracle of any property. Kani assumes the asserted condition afterwards, so every path THROUGH the panic is
                # cut off: this property's own oracles cannot see what follows. Never ignored: see the confirmation phase.
                info["failed_panic"].append(d)
        else:
            # UNDETERMINED etc.
            info["notes"].append("%s: %s" % (st, d))
    if info["failed_own"]:
        # a failed oracle is definite (a counterexample exists within the bound) even if some loop bound was too small
        info["status"] = "decided"
    elif unwind_failed:
        info["status"] = "unwind_too_small"
    elif unwind_undet or any(n.startswith("UNDETERMINED") for n in info["notes"]):
        info["status"] = "undetermined"
    else:
        info["status"] = "decided"
    return info


def load_known():
    p = os.path.join(VERIF, "known_findings.json")
    if not os.path.exists(p):
        return []
    return json.load(open(p)).get("findings", [])


def write_replay_file(ctx, job, desc, script, outputs, extra=None):
    os.makedirs(os.path.join(OUT_DIR, "replays"), exist_ok=True)
    hexs = "".join("%02x" % b for b in script)
    h = hashlib.sha1((job["harness"] + hexs + desc).encode()).hexdigest()[:10]
    path = os.path.join(OUT_DIR, "replays", "%s-%s-%s.json" % (ctx.prop, short(job["harness"]), h))
    rp = job["replay"]
    doc = {"property": ctx.prop, "harness": job["harness"], "oracle": desc, "script_hex": hexs,
           "script": script, "replay": {"name": rp[0], "cfg": rp[1], "mask": job.get("mask", registry.PALL)},
           "decoded": registry.decode(rp[0], rp[1], script),
           "native_output": outputs,
           "replay_cmd": "python3 %s/check.py --replay %s" % (VERIF, path)}
    if extra:
        doc.update(extra)
    json.dump(doc, open(path, "w"), indent=1)
    return path


def do_replay_file(path):
    doc = json.load(open(path))
    if doc.get("kind") == "c16":
        sys.path.insert(0, os.path.join(VERIF, "c16"))
        import check_c16
        return check_c16.replay_file(doc)
    ctx = Ctx(doc["property"], "quick", 0)
    try:
        rc_all = 0
        for rel in (False, True):
            b = ctx.build_replayer(release=rel)
            if not b:
                print("replayer build failed")
                return 2
            rp = doc["replay"]
            rc, out = ctx.replay(b, rp["name"], rp["cfg"], rp["mask"], doc["script"])
            print("--- %s profile: exit %d" % ("release" if rel else "dev", rc))
            print(out.strip())
            if rc == 101:
                rc_all = 1
        for line in doc.get("decoded", []):
            print("  ", line)
        return rc_all
    finally:
        ctx.cleanup()


def main():
    args = sys.argv[1:]
    if args and args[0] == "--replay":
        sys.exit(do_replay_file(args[1]))
    if not args:
        print(__doc__)
        sys.exit(2)
    prop = args[0]
    tier = os.environ.get("VERIF_TIER", "quick")
    if "--tier" in args:
        tier = args[args.index("--tier") + 1]
    seed = int(os.environ.get("VERIF_SEED", "0") or 0)
    if prop not in registry.PROPS:
        print("unknown or unclaimed property", prop)
        sys.exit(2)
    spec = registry.PROPS[prop]
    if hasattr(registry, "CUSTOM") and prop in registry.CUSTOM:
        sys.exit(registry.CUSTOM[prop](prop, tier, seed))
    t_start = time.time()
    ctx = Ctx(prop, tier, seed)
    rc = 2
    try:
        rc = run_property(ctx, spec, t_start)
    finally:
        ctx.cleanup()
    sys.exit(rc)


def run_property(ctx, spec, t_start):
    prop, tier, seed = ctx.prop, ctx.tier, ctx.seed
    jobs = [dict(j) for j in spec[tier]]
    rnd = random.Random(seed)
    rnd.shuffle(jobs)
    # longest first for better packing
    jobs.sort(key=lambda j: -j.get("est_s", 60))
    print("check %s tier=%s seed=%d: %d solver jobs" % (prop, tier, seed, len(jobs)), flush=True)

    ok, wall, text = ctx.warm()
    if not ok:
        print("INCONCLUSIVE property=%s reason=harness-does-not-compile" % prop)
        print(text[-3000:])
        write_evidence(ctx, spec, [], [], t_start, "compile_error", [])
        return 2
    print("  compiled /repo with hooks on in %.0fs" % wall, flush=True)
    replayer_future = None
    pool = cf.ThreadPoolExecutor(max_workers=int(os.environ.get("VERIF_JOBS", "16")))
    replayer_future = pool.submit(ctx.build_replayer)

    def run_job(job):
        flags = list(FAST_FLAGS) if job.get("profile", "fast") == "fast" else []
        flags += job.get("kani_flags", [])
        cap = job.get("timeout", 1500 if tier == "quick" else 3600)
        mem = job.get("mem_gb", 20 if tier == "quick" else 28)
        if job["role"] == "witness":
            # expected to fail on the WITNESS assertion: ask for the trace values right away
            r = ctx.kani(job["harness"], flags + PLAYBACK_FLAGS, cap, mem, "run")
            info = classify(prop, job, r)
            pb = parse_playback(open(r["log"], errors="replace").read())
            return job, r, info, pb
        r = ctx.kani(job["harness"], flags, cap, mem, "run")
        info = classify(prop, job, r)
        need_pb = (job["role"] == "witness" and "WITNESS reached" in info.get("special", [])) or \
                  (job["role"] in ("hold",) and (info["failed_own"] or info["failed_panic"] or info["failed_other"]) and job.get("replay"))
        pb = None
        if need_pb:
            r2 = ctx.kani(job["harness"], flags + PLAYBACK_FLAGS, cap, mem, "playback")
            pb = parse_playback(open(r2["log"], errors="replace").read())
            r["playback_wall_s"] = r2["wall_s"]
        return job, r, info, pb

    import threading
    budget = float(os.environ.get("VERIF_MEM_GB", "44"))
    cond = threading.Condition()
    in_use = [0.0]

    def gated(job):
        need = min(float(job.get("est_gb", 2.0)), budget)
        with cond:
            while in_use[0] + need > budget:
                cond.wait()
            in_use[0] += need
        try:
            return run_job(job)
        finally:
            with cond:
                in_use[0] -= need
                cond.notify_all()

    results = []
    futs = [pool.submit(gated, j) for j in jobs]
    for f in cf.as_completed(futs):
        job, r, info, pb = f.result()
        results.append((job, r, info, pb))
        print("  [%s] %-46s %-9s %6.1fs vars=%d own_failed=%d%s" % (
            job["role"], short(job["harness"]), info["status"], r["wall_s"], r["sat_variables"],
            len(info["failed_own"]), ((" covers_unsat=%d" % len(info["covers_unsat"])) if info["covers_unsat"] else "") +
            ((" crate_panics=%d" % len(info["failed_panic"])) if info["failed_panic"] else "") +
            ((" other_oracles=%d" % len(info["failed_other"])) if info["failed_other"] else "")),
            flush=True)
    replayer = replayer_future.result()
    pool.shutdown()
    if not replayer:
        print("INCONCLUSIVE property=%s reason=replayer-does-not-build" % prop)
        write_evidence(ctx, spec, results, [], t_start, "replayer_build_error", [])
        return 2

    known = [k for k in load_known() if k.get("property") == prop and k.get("status") == "known"]
    violations, known_hits, inconclusive, samples, validated = [], [], [], [], 0
    step_cex = []
    release_bin = None
    for job, r, info, pb in results:
        name = short(job["harness"])
        st = info["status"]
        if st != "decided":
            if job.get("bonus"):
                continue
            inconclusive.append("%s: %s" % (name, st))
            continue
        if info["covers_unsat"] and not job.get("bonus"):
            inconclusive.append("%s: vacuous (cover not satisfiable: %s)" % (name, info["covers_unsat"][0]))
        role = job["role"]
        if role == "witness":
            if "WITNESS reached" not in info.get("special", []):
                inconclusive.append("%s: witness twin verified, harness is vacuous" % name)
                continue
            scripts = [s for d, s in (pb or []) if d == "WITNESS reached"]
            if not scripts:
                inconclusive.append("%s: no playback values for witness" % name)
                continue
            rp = job["replay"]
            rc, out = ctx.replay(replayer, rp[0], rp[1], job.get("mask", registry.PALL), scripts[0])
            m = re.search(r"REPLAY-OK reached=(\d+)", out)
            if rc == 0 and m and (int(m.group(1)) & job.get("witness_bit", 0)) == job.get("witness_bit", 0):
                validated += 1
                samples.append({"harness": name, "kind": "witness history replayed natively",
                                "script": scripts[0], "decoded": registry.decode(rp[0], rp[1], scripts[0]),
                                "native": out.strip()})
            elif rc == 101 and own_oracle(prop, out.split("REPLAY-PANIC ", 1)[-1].strip()):
                # the witness history itself violates the property natively
                desc = out.split("REPLAY-PANIC ", 1)[-1].strip()
                path = write_replay_file(ctx, job, desc, scripts[0], out)
                violations.append((desc, path, name))
            else:
                inconclusive.append("%s: witness does not replay natively (rc=%d: %s)" % (name, rc, out.strip()[-200:]))
            # own-oracle failures inside a witness harness are handled like hold failures below
        if role == "panic":
            # poll after completion: every path must panic before the SENTINEL (reported UNREACHABLE by the reach check)
            sent = [c for c in r["checks"] if c["desc"].startswith("SENTINEL")]
            panics = [c for c in r["checks"] if c["status"] == "FAILURE" and not c["desc"].startswith("SENTINEL")
                      and ("expect_failed" in c["name"] or "panic" in c["name"] or "panic" in c["desc"] or "placeholder" in c["desc"])]
            if sent and sent[0]["status"] == "FAILURE":
                path = os.path.join(OUT_DIR, "replays", "%s-%s.json" % (prop, name.replace("::", "_")))
                os.makedirs(os.path.dirname(path), exist_ok=True)
                json.dump({"property": prop, "harness": job["harness"], "kind": "repoll",
                           "oracle": "polling a completed future yields a second result instead of panicking",
                           "replay_cmd": "cargo kani --harness %s --exact (hooks on); natively: poll the future twice" % job["harness"]},
                          open(path, "w"), indent=1)
                violations.append(("%s a completed future was polled again and did not panic" % prop, path, name))
            elif not sent or sent[0]["status"] != "UNREACHABLE" or not panics:
                inconclusive.append("%s: expected 'panic reachable, sentinel unreachable', got sentinel=%s panics=%d" % (
                    name, sent[0]["status"] if sent else None, len(panics)))
            continue
        if role == "step" and info["failed_own"]:
            step_cex.append((name, info["failed_own"]))
            continue
        foreign = info["failed_panic"] + info["failed_other"]
        if role in ("hold", "witness", "step") and foreign and not info["failed_own"]:
            # A crate panic (overflow, unwrap, debug assertion) is reachable in this harness. In the build Kani models (dev
            # profile) the operation panics - that is C01's clause. What THIS property's oracle says about the same input is
            # decided by replaying the solver's values natively in the dev and in the release profile (where e.g. arithmetic
            # wraps instead of panicking): if the property's own oracle fails there, it is a violation of this property;
            # otherwise the property cannot be decided beyond the panic and the check is inconclusive (never "held").
            hit = False
            if role == "hold" and job.get("replay"):
                if release_bin is None:
                    release_bin = ctx.build_replayer(release=True) or False
                for desc, script in [(d, sc) for d, sc in (pb or []) if d in foreign]:
                    rp = job["replay"]
                    outs = {}
                    for prof, binary in (("dev", replayer), ("release", release_bin)):
                        if not binary:
                            continue
                        rcx, outx = ctx.replay(binary, rp[0], rp[1], job.get("mask", registry.PALL), script)
                        outs[prof] = outx
                        msgx = outx.split("REPLAY-PANIC ", 1)[-1].strip()
                        if rcx == 101 and own_oracle(prop, msgx) and not hit:
                            decoded = registry.decode(rp[0], rp[1], script)
                            kf = registry.match_known(known, prop, rp[0], decoded, msgx)
                            path = write_replay_file(ctx, job, msgx + "  [native %s profile; Kani (dev profile) reports: %s]" % (prof, desc),
                                                     script, outs)
                            if kf:
                                known_hits.append((kf, path))
                            else:
                                violations.append((msgx, path, name))
                            hit = True
                    if hit:
                        break
            if not hit:
                what = "a crate panic is reachable (%s; the panic itself is C01's clause)" % info["failed_panic"][0] if info["failed_panic"] \
                    else "an oracle of another property fails in this harness (%s)" % info["failed_other"][0]
                inconclusive.append("%s: %s: paths through it are cut off, %s is not decided beyond it" % (name, what, prop))
            continue
        if role in ("hold", "witness") and info["failed_own"]:
            if not job.get("replay"):
                step_cex.append((name, info["failed_own"]))
                continue
            cands = [(d, s) for d, s in (pb or []) if d in info["failed_own"]]
            if role == "witness" and not cands:
                # playback of a witness harness lists own failures too if any
                cands = [(d, s) for d, s in (pb or []) if own_oracle(prop, d)]
            if not cands:
                inconclusive.append("%s: oracle failed (%s) but no playback values" % (name, info["failed_own"][0]))
                continue
            confirmed = False
            for desc, script in cands:
                rp = job["replay"]
                rc, out = ctx.replay(replayer, rp[0], rp[1], job.get("mask", registry.PALL), script)
                if rc == 101:
                    msg = out.split("REPLAY-PANIC ", 1)[-1].strip()
                    if release_bin is None:
                        release_bin = ctx.build_replayer(release=True) or False
                    out_rel = ""
                    if release_bin:
                        rc2, out_rel = ctx.replay(release_bin, rp[0], rp[1], job.get("mask", registry.PALL), script)
                    decoded = registry.decode(rp[0], rp[1], script)
                    kf = registry.match_known(known, prop, rp[0], decoded, msg)
                    path = write_replay_file(ctx, job, msg, script, {"dev": out, "release": out_rel})
                    if kf:
                        known_hits.append((kf, path))
                    else:
                        violations.append((msg, path, name))
                    confirmed = True
                    break
            if not confirmed:
                inconclusive.append("%s: counterexample for '%s' does not reproduce natively" % (name, cands[0][0]))

    for kf, path in known_hits:
        print("KNOWN-FINDING: property=%s %s (replay=%s)" % (prop, kf["what"], path))
    status = "held"
    rc = 0
    if violations:
        seen = set()
        for desc, path, name in violations:
            if (desc, name) in seen:
                continue
            seen.add((desc, name))
            print("  violated oracle: %s  [%s]" % (desc, name))
            print("VIOLATION property=%s replay=%s" % (prop, path))
        status, rc = "violated", 1
    elif step_cex:
        for name, descs in step_cex:
            print("INCONCLUSIVE property=%s step-cex=%s oracle=%s (inductive step fails; no public-API history within the bound reproduces it)" % (prop, name, descs[0]))
        status, rc = "inconclusive", 2
    elif inconclusive:
        for m in inconclusive:
            print("INCONCLUSIVE property=%s %s" % (prop, m))
        status, rc = "inconclusive", 2
    write_evidence(ctx, spec, results, samples, t_start, status, violations, validated, inconclusive, known_hits)
    print("RESULT property=%s tier=%s status=%s wall=%.0fs" % (prop, tier, status, time.time() - t_start))
    return rc


def write_evidence(ctx, spec, results, samples, t_start, status, violations, validated=0, inconclusive=(), known_hits=()):
    prop = ctx.prop
    evals = 0
    oracle_held = set()
    covers = set()
    queries = []
    functions = set()
    solver_s = 0.0
    discharged = 0
    claimed = 0
    not_covered = []
    for job, r, info, pb in results:
        name = short(job["harness"])
        if not job.get("bonus"):
            claimed += 1
        nchecks = len(r["checks"])
        evals += nchecks
        for c in r["checks"]:
            if ".cover." in c["name"]:
                if c["status"] == "SATISFIED":
                    covers.add((name, c["desc"]))
                continue
            if c["status"] == "SUCCESS" and (own_oracle(prop, c["desc"]) or
                                             (prop in PANICS_ARE_OWN and not is_other_oracle(c["desc"]))):
                oracle_held.add((name, c["desc"], c["loc"].split(" in function")[0]))
            m = re.search(r"in function (.*)$", c["loc"])
            if m and ("verif" not in m.group(1)) and (c["loc"].startswith("src/") or "/repo/src" in c["loc"]):
                functions.add(m.group(1))
        solver_s += r["solver_s"]
        dec = info["status"] == "decided" and not info["failed_own"] and not info["failed_panic"] and not info["failed_other"] and not info["covers_unsat"]
        if job["role"] == "witness":
            dec = info["status"] == "decided" and "WITNESS reached" in info.get("special", [])
        if job["role"] == "panic":
            dec = info["status"] == "decided" and any(c["desc"].startswith("SENTINEL") and c["status"] == "UNREACHABLE" for c in r["checks"])
        if dec and not job.get("bonus"):
            discharged += 1
        if not dec and info["status"] in ("timeout", "oom"):
            not_covered.append(name)
        queries.append({"harness": name, "role": job["role"], "profile": job.get("profile", "fast"),
                        "status": info["status"], "checks": nchecks,
                        "failed_own": info["failed_own"][:3], "sat_variables": r["sat_variables"],
                        "clauses": r["clauses"], "solver_calls": r["solver_calls"], "solver_s": r["solver_s"],
                        "symex_s": r["symex_s"], "wall_s": r["wall_s"], "bonus": bool(job.get("bonus")),
                        "bounds": job.get("bounds", "")})
    if not samples:
        # fall back: describe the obligations themselves
        samples = [{"harness": q["harness"], "role": q["role"], "bounds": q["bounds"]} for q in queries[:3]] or \
                  [{"note": "no query finished"}]
    fn_static = sorted(set(spec.get("functions", [])))
    ev = {
        "property_id": prop,
        "tier": ctx.tier,
        "seed": ctx.seed,
        "level": "model_checking",
        "coverage": {
            "evaluations": max(evals, 0),
            "distinct_nontrivial": len(oracle_held) + len(covers),
            "rule": "evaluations = checks decided by CBMC/CaDiCaL over all values within the bounds (each is one SAT "
                    "query over the symbolic history / symbolic pre-state); distinct_nontrivial = distinct "
                    "(harness, oracle assertion, location) triples of THIS property that were decided to hold, plus "
                    "distinct reachability covers that were SATISFIED (so the oracle is not vacuous)",
            "samples": samples[:6],
            "traces_validated_against_impl": validated,
            "obligations": claimed,
            "discharged": discharged,
            "exhaustive": False,
            "status": status,
            "queries": sorted(queries, key=lambda q: q["harness"]),
            "solver_time_s": round(solver_s, 1),
            "functions_encoded_measured": sorted(functions)[:200],
            "functions_encoded": fn_static,
            "bounds": spec.get("bounds", {}).get(ctx.tier, spec.get("bounds", {})),
            "instantiations": spec.get("instantiations", []),
            "not_covered": not_covered,
            "inconclusive": list(inconclusive),
            "known_findings_hit": [k["id"] for k, _ in known_hits],
            "checker_cmd": "cargo kani --harness <h> --exact (Kani 0.68.0 / CBMC 6.11.0 / CaDiCaL), driven by /verif/check.py",
            "trusted_base": ["rustc + Kani 0.68 MIR->goto translation", "CBMC 6.11 symbolic execution", "CaDiCaL",
                             "lock_api", "core::task", "hand-written reference models and invariants in /verif/harness/inc",
                             "parking_lot (not modelled; CheckLock/NoopLock instantiations instead)"],
        },
        "assumptions": spec.get("assumptions", []) + registry.GLOBAL_ASSUMPTIONS,
        "wall_s": round(time.time() - t_start, 1),
        "violations": len(violations),
    }
    # evidence describes /repo; a run pointed at another checkout (VERIF_REPO, development only) must not overwrite it
    evdir = os.path.join(VERIF, "evidence") if os.path.realpath(REPO) == "/repo" else os.path.join(VERIF, "out", "evidence-other-tree")
    os.makedirs(evdir, exist_ok=True)
    json.dump(ev, open(os.path.join(evdir, prop + ".json"), "w"), indent=1)


if __name__ == "__main__":
    main()

#!/bin/bash
# usage: mutcheck.sh <seed-id> [property...]   (default property = the one the seed targets)
# runs the quick checks against the scratch worktree /tmp/mut-<PROP> that holds the seeded change
id=$1; shift
prop=${id%%-*}
round=${id##*-}
wt=/tmp/mut-$prop; [ "$round" = "2" ] && wt=/tmp/m2-$prop; [ "$round" = "3" ] && wt=/tmp/m3-$prop; [ "$round" = "4" ] && wt=/tmp/m4-$prop; [ "$round" = "5" ] && wt=/tmp/m5-$prop
props=${@:-$prop}
mkdir -p out
for p in $props; do
  s=$(date +%s)
  VERIF_REPO=$wt python3 check.py $p --tier ${TIER:-quick} > out/mut-$id.$p.log 2>&1
  rc=$?
  echo "seed=$id check=$p exit=$rc wall=$(( $(date +%s) - s ))s $(grep -E '^VIOLATION|^INCONCLUSIVE|^RESULT' out/mut-$id.$p.log | head -2 | tr '\n' ' ' | cut -c1-300)"
done

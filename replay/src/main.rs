// usage: fi-replay <harness> <cfg> <property-mask> <hex-script>
// exit 0 + "REPLAY-OK reached=<bits>": the script ran, every oracle held
// exit 101 (panic): an oracle or the crate itself panicked; message on stderr
// exit 3: unknown harness, exit 4: script rejected by a harness assumption
// C18: count allocations and frees while the interpreter has armed the counter
struct Counting;
unsafe impl std::alloc::GlobalAlloc for Counting {
    unsafe fn alloc(&self, l: std::alloc::Layout) -> *mut u8 {
        futures_intrusive::verif::common::note_alloc_event();
        std::alloc::System.alloc(l)
    }
    unsafe fn dealloc(&self, p: *mut u8, l: std::alloc::Layout) {
        futures_intrusive::verif::common::note_alloc_event();
        std::alloc::System.dealloc(p, l)
    }
    unsafe fn realloc(&self, p: *mut u8, l: std::alloc::Layout, n: usize) -> *mut u8 {
        futures_intrusive::verif::common::note_alloc_event();
        std::alloc::System.realloc(p, l, n)
    }
}
#[global_allocator]
static GLOBAL: Counting = Counting;

fn main() {
    let args: Vec<String> = std::env::args().collect();
    if args.len() < 5 {
        eprintln!("usage: fi-replay <harness> <cfg> <property-mask> <hex-script>");
        std::process::exit(2);
    }
    let cfg: u32 = args[2].parse().expect("cfg");
    let mask: u32 = args[3].parse().expect("mask");
    let hex = args[4].as_bytes();
    let mut bytes = Vec::new();
    let mut i = 0;
    while i + 1 < hex.len() {
        let h = |c: u8| -> u8 {
            match c {
                b'0'..=b'9' => c - b'0',
                b'a'..=b'f' => c - b'a' + 10,
                b'A'..=b'F' => c - b'A' + 10,
                _ => 0,
            }
        };
        bytes.push(h(hex[i]) * 16 + h(hex[i + 1]));
        i += 2;
    }
    let r = std::panic::catch_unwind(|| futures_intrusive::verif::replay(&args[1], cfg, mask, &bytes));
    match r {
        Ok(Some(bits)) => {
            println!("REPLAY-OK reached={}", bits);
        }
        Ok(None) => {
            println!("REPLAY-UNKNOWN-HARNESS {}", args[1]);
            std::process::exit(3);
        }
        Err(e) => {
            let msg = if let Some(s) = e.downcast_ref::<&str>() {
                s.to_string()
            } else if let Some(s) = e.downcast_ref::<String>() {
                s.clone()
            } else {
                "<non-string panic>".to_string()
            };
            if msg.starts_with("VERIF-ASSUME-REJECTED") {
                println!("REPLAY-REJECTED {}", msg);
                std::process::exit(4);
            }
            println!("REPLAY-PANIC {}", msg);
            std::process::exit(101);
        }
    }
}

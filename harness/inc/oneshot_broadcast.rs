// verification harness include for oneshot_broadcast (see /verif/DESIGN.md)

// Included at the end of /repo/src/channel/oneshot_broadcast.rs under cfg(futures_intrusive_verif).
pub(crate) mod verif_oneshot_bc {
    use super::*;
    use crate::verif::common::*;
    use core::future::Future;
    use core::mem::ManuallyDrop;
    use core::pin::Pin;
    use futures_core::future::FusedFuture;

    type Chan<M> = GenericOneshotBroadcastChannel<M, Tag>;
    const BROADCAST: bool = true;

    include!(concat!(env!("FI_VERIF_INC"), "/oneshot_common.rs"));

    #[no_mangle]
    pub fn fi_verif_replay_oneshot_bc(name: &str, cfg: u32, p: u32, s: &mut ScriptSrc<'_>) -> bool {
        match name {
            "oneshot_bc_hist_noop" => { hist::<NoopLock, _>(s, cfg, 64, p); }
            "oneshot_bc_hist_check" => { hist::<CheckLock, _>(s, cfg, 64, p); }
            _ => return false,
        }
        true
    }
}

// Included at the end of /repo/src/channel/state_broadcast.rs under cfg(futures_intrusive_verif).
// State broadcast harnesses: C13 (+ C11 close semantics, C01, C17 parts).

pub(crate) mod verif_state {
    use super::*;
    use crate::verif::common::*;
    use core::mem::ManuallyDrop;

    macro_rules! oracle {
        ($p:expr, $mask:expr, $cond:expr, $msg:literal) => {
            if ($p & $mask) != 0 {
                assert!($cond, $msg);
            }
        };
    }

    pub const K: usize = 3;
    pub const W_SEND_WAKES_TWO: u32 = 1; // a send with >= 2 registered receivers
    pub const W_FOLLOWER: u32 = 2; // a receiver fed back the id it got and received a newer state
    pub const W_CLOSED_LATEST: u32 = 4; // after close a receiver still got the latest state, another one None

    type Chan<M> = GenericStateBroadcastChannel<M, Tag>;

    pub fn hist<M: RawMutex, S: Src>(s: &mut S, _cfg: u32, n: usize, p: u32) -> u32 {
        let ch = Chan::<M>::new();
        let (c0a, c0b, c1a, c1b, c2a, c2b) = (
            WakeCell::new(), WakeCell::new(), WakeCell::new(),
            WakeCell::new(), WakeCell::new(), WakeCell::new(),
        );
        // requested id of the current future of the slot: 0..3, NOT limited to ids this channel has published so far
        // (a StateId obtained from another, more advanced channel is a legal argument)
        let mut ids = [s.below(4) as u64, s.below(4) as u64, s.below(4) as u64];
        let mut f0 = ManuallyDrop::new(ch.receive(StateId(ids[0])));
        let mut f1 = ManuallyDrop::new(ch.receive(StateId(ids[1])));
        let mut f2 = ManuallyDrop::new(ch.receive(StateId(ids[2])));
        if (p & P18) != 0 { arm_alloc(); }
        // model: publication log
        let mut c: u64 = 0; // number of published states = latest id
        let mut latest: u8 = 0;
        let mut closed = false;
        let mut next_tag: u8 = 1;
        let mut alive = [true; K];
        let mut pending = [false; K];
        let mut done = [false; K];
        let mut lw = [0u8; K];
        let mut snap = [0u32; K];
        let mut ever = [false; K];
        let mut fresh = [true; K];
        let mut got_some_after_close = false;
        let mut dead = [false; K]; // slot's future was dropped and not re-created yet
        let mut dsn = [[0u32; 2]; K]; // wake counts of its two wakers just before the drop
        let mut bits = 0u32;
        let mut step = 0;
        while step < n && !s.exhausted() {
            step += 1;
            let op = s.below(12);
            if op < 6 {
                let i = (op / 2) as usize;
                let w = op % 2;
                s.assume(!done[i]);
                s.assume(i == 0 || ever[i - 1]);
                s.assume(!fresh[i] || w == 0);
                ever[i] = true;
                let f = match i { 0 => &mut f0, 1 => &mut f1, _ => &mut f2 };
                if !alive[i] {
                    // a new receive; any requested id 0..3 (0 = "anything"; possibly ahead of the channel)
                    let id = s.below(4) as u64;
                    ids[i] = id;
                    *f = ManuallyDrop::new(ch.receive(StateId(id)));
                    alive[i] = true;
                    dead[i] = false;
                    fresh[i] = true;
                    oracle!(p, P17, !f.is_terminated(), "C17 state broadcast: fresh receive future reports terminated");
                }
                fresh[i] = false;
                let cell = match (i, w) {
                    (0, 0) => &c0a, (0, _) => &c0b,
                    (1, 0) => &c1a, (1, _) => &c1b,
                    (_, 0) => &c2a, (_, _) => &c2b,
                };
                let waker = ManuallyDrop::new(mk_waker(cell));
                let mut cx = Context::from_waker(&waker);
                let r = unsafe { Pin::new_unchecked(&mut **f) }.poll(&mut cx);
                let newer = c > 0 && ids[i] < c;
                match r {
                    Poll::Ready(Some((sid, t))) => {
                        oracle!(p, P13, newer, "C13 state broadcast: receive completed without a state newer than the requested id");
                        oracle!(p, P13, sid.0 == c && t.0 == latest, "C13 state broadcast: receive did not yield the most recently published state and its id");
                        oracle!(p, P13, sid > StateId(ids[i]), "C13 state broadcast: returned id is not larger than the requested one");
                        if ids[i] > 0 { bits |= W_FOLLOWER; }
                        if closed { got_some_after_close = true; }
                        core::mem::forget(t);
                        pending[i] = false;
                        done[i] = true;
                    }
                    Poll::Ready(None) => {
                        if closed {
                            oracle!(p, P13 | P11, !newer, "C11+C13 state broadcast: receive yielded None on a closed channel although a newer state was accepted before the close");
                        } else {
                            oracle!(p, P13 | P11, false, "C13 state broadcast: receive yielded None although the channel is open");
                        }
                        if got_some_after_close { bits |= W_CLOSED_LATEST; }
                        pending[i] = false;
                        done[i] = true;
                    }
                    Poll::Pending => {
                        oracle!(p, P13, !newer && !closed, "C13 state broadcast: receive stays pending although a newer state exists or the channel is closed");
                        pending[i] = true;
                        lw[i] = w;
                        snap[i] = cell.n();
                    }
                }
            } else if op < 9 {
                let i = (op - 6) as usize;
                s.assume(alive[i] && (pending[i] || done[i]));
                let f = match i { 0 => &mut f0, 1 => &mut f1, _ => &mut f2 };
                dsn[i] = match i { 0 => [c0a.n(), c0b.n()], 1 => [c1a.n(), c1b.n()], _ => [c2a.n(), c2b.n()] };
                dead[i] = true;
                unsafe { ManuallyDrop::drop(f) };
                alive[i] = false;
                pending[i] = false;
                done[i] = false;
            } else if op == 9 {
                s.assume(next_tag < 6);
                let tag = next_tag;
                next_tag += 1;
                let np = pending[0] as u8 + pending[1] as u8 + pending[2] as u8;
                match ch.send(Tag(tag)) {
                    Ok(()) => {
                        oracle!(p, P13 | P11, !closed, "C11 state broadcast: a send after close was accepted");
                        c += 1;
                        latest = tag;
                        if np >= 2 { bits |= W_SEND_WAKES_TWO; }
                    }
                    Err(e) => {
                        oracle!(p, P13 | P11, closed, "C13 state broadcast: a send on an open channel was rejected");
                        oracle!(p, P13 | P11, (e.0).0 == tag, "C11 state broadcast: a rejected send did not hand back the caller's own value");
                        core::mem::forget(e);
                    }
                }
            } else if op == 10 {
                let st = ch.close();
                oracle!(p, P11 | P13, st.is_newly_closed() == !closed, "C11 state broadcast: close() status is not NewlyClosed-once / AlreadyClosed-afterwards");
                closed = true;
            } else {
                let id = s.below(4) as u64;
                let newer = c > 0 && id < c;
                match ch.try_receive(StateId(id)) {
                    Some((sid, t)) => {
                        oracle!(p, P13, newer && sid.0 == c && t.0 == latest, "C13 state broadcast: try_receive yielded something else than the latest state newer than the id");
                        core::mem::forget(t);
                    }
                    None => {
                        if closed {
                            // "receivers still get the state accepted before the close" is C11's clause as well
                            oracle!(p, P13 | P11, !newer, "C11+C13 state broadcast: try_receive yielded None on a closed channel although a newer state was accepted before the close");
                        } else {
                            oracle!(p, P13, !newer, "C13 state broadcast: try_receive yielded None although a newer state exists");
                        }
                    }
                }
            }
            oracle!(p, P18, alloc_events() == 0, "C18 state broadcast: an operation allocated or freed heap memory");
            // a pending receiver for which something newer exists, or after close: woken through its latest waker
            let now = [c0a.n(), c0b.n(), c1a.n(), c1b.n(), c2a.n(), c2b.n()];
            let mut i = 0;
            while i < K {
                if pending[i] && (closed || (c > 0 && ids[i] < c)) {
                    oracle!(p, P13 | P11, now[2 * i + lw[i] as usize] > snap[i],
                        "C11+C13 state broadcast: a waiting receiver was not woken by the send/close through its latest waker");
                }
                i += 1;
            }
            if (p & P01) != 0 {
                // C01: a dropped future is in no wait queue any more, so its task is never woken again
                if dead[0] { assert!(c0a.n() == dsn[0][0] && c0b.n() == dsn[0][1], "C01 state broadcast: the task of a dropped future was woken (dangling waiter)"); }
                if dead[1] { assert!(c1a.n() == dsn[1][0] && c1b.n() == dsn[1][1], "C01 state broadcast: the task of a dropped future was woken (dangling waiter)"); }
                if dead[2] { assert!(c2a.n() == dsn[2][0] && c2b.n() == dsn[2][1], "C01 state broadcast: the task of a dropped future was woken (dangling waiter)"); }
            }
            if (p & P17) != 0 {
                if alive[0] { assert!(f0.is_terminated() == done[0], "C17 state broadcast: is_terminated() differs from 'completed'"); }
                if alive[1] { assert!(f1.is_terminated() == done[1], "C17 state broadcast: is_terminated() differs from 'completed'"); }
                if alive[2] { assert!(f2.is_terminated() == done[2], "C17 state broadcast: is_terminated() differs from 'completed'"); }
            }
        }
        s.reached(bits);
        bits
    }

    /// Thread-safe flavour under contention (CONTENDED: a try_lock on the channel lock would fail once, as if another
    /// thread were inside the critical section; lock() just waits): a poll must still deliver a newer state or register,
    /// so that the next send / close wakes it through its latest waker (also for wakers that differ only in the vtable).
    pub fn contended_scenario<S: Src>(s: &mut S, p: u32) -> u32 {
        let ch = Chan::<CheckLock>::new();
        let pre = s.flag();
        if pre { core::mem::forget(ch.send(Tag(1))); }
        let c = DualCell::new();
        let mut f = ManuallyDrop::new(ch.receive(StateId(0)));
        let wa = ManuallyDrop::new(mk_waker_a(&c));
        let wb = ManuallyDrop::new(mk_waker_b(&c));
        if s.flag() { CONTENDED.store(1, core::sync::atomic::Ordering::Relaxed); }
        let r = { let mut cx = Context::from_waker(&wa); unsafe { Pin::new_unchecked(&mut *f) }.poll(&mut cx) };
        CONTENDED.store(0, core::sync::atomic::Ordering::Relaxed);
        let mut bits = 0;
        match r {
            Poll::Ready(Some((sid, t))) => { oracle!(p, P13, pre && sid.0 == 1 && t.0 == 1, "C13 state broadcast: receive yielded something else than the latest state"); core::mem::forget(t); }
            Poll::Ready(None) => { oracle!(p, P13, false, "C13 state broadcast: receive yielded None on an open channel"); }
            Poll::Pending => {
                oracle!(p, P13, !pre, "C13 state broadcast: receive stays pending although a newer state exists");
                let second = s.flag();
                if second {
                    if s.flag() { CONTENDED.store(1, core::sync::atomic::Ordering::Relaxed); }
                    let r = { let mut cx = Context::from_waker(&wb); unsafe { Pin::new_unchecked(&mut *f) }.poll(&mut cx) };
                    CONTENDED.store(0, core::sync::atomic::Ordering::Relaxed);
                    if let Poll::Ready(v) = r { core::mem::forget(v); oracle!(p, P13, false, "C13 state broadcast: receive completed without a newer state"); }
                }
                if s.flag() { core::mem::forget(ch.send(Tag(2))); } else { let _ = ch.close(); }
                let latest = if second { c.b.get() } else { c.a.get() };
                oracle!(p, P13, latest >= 1, "C13 state broadcast: a waiting receiver was not woken by the next send / close through its latest waker");
                bits = 1;
            }
        }
        core::mem::forget(ch);
        s.reached(bits);
        bits
    }

    #[no_mangle]
    pub fn fi_verif_replay_state(name: &str, cfg: u32, p: u32, s: &mut ScriptSrc<'_>) -> bool {
        match name {
            "state_contended" => { contended_scenario::<_>(s, p); }
            "state_hist_noop" => { hist::<NoopLock, _>(s, cfg, 64, p); }
            "state_hist_check" => { hist::<CheckLock, _>(s, cfg, 64, p); }
            _ => return false,
        }
        true
    }

    // =====================================================================
    // E-STEP with a full-range symbolic state id. Inv: queue members = {Registered};
    // Registered => !closed and nothing newer than its requested id exists and stored waker = latest;
    // value.is_some() <=> state_id > 0.
    // =====================================================================
    #[cfg(kani)]
    pub mod step {
        use super::*;
        type Node = ListNode<RecvWaitQueueEntry>;
        // 0 Unregistered(live), 1 Registered, 2 Terminated
        fn any_st() -> u8 { let x: u8 = kani::any(); kani::assume(x < 3); x }
        fn obs<M>(f: &StateReceiveFuture<'_, M, Tag>) -> u8 {
            match (&f.wait_node.state, f.channel.is_some()) {
                (_, false) => 2,
                (RecvPollState::Unregistered, true) => 0,
                (RecvPollState::Registered, true) => 1,
            }
        }
        pub fn run<M: RawMutex>(p: u32) {
            let ch = Chan::<M>::new();
            let (c0a, c0b, c1a, c1b, c2a, c2b) = (
                WakeCell::new(), WakeCell::new(), WakeCell::new(),
                WakeCell::new(), WakeCell::new(), WakeCell::new(),
            );
            let sid: u64 = kani::any();
            let closed: bool = kani::any();
            let rid: [u64; 3] = [kani::any(), kani::any(), kani::any()];
            let mut f0 = ManuallyDrop::new(ch.receive(StateId(rid[0])));
            let mut f1 = ManuallyDrop::new(ch.receive(StateId(rid[1])));
            let mut f2 = ManuallyDrop::new(ch.receive(StateId(rid[2])));
            let st = [any_st(), any_st(), any_st()];
            let lw: [bool; 3] = [kani::any(), kani::any(), kani::any()];
            let r: [u8; 3] = [kani::any(), kani::any(), kani::any()];
            kani::assume(r[0] < 3 && r[1] < 3 && r[2] < 3 && r[0] != r[1] && r[1] != r[2] && r[0] != r[2]);
            let mut i = 0;
            while i < 3 {
                if st[i] == 1 { kani::assume(!closed && !(sid > 0 && rid[i] < sid)); }
                i += 1;
            }
            macro_rules! setup {
                ($f:ident, $i:expr, $ca:expr, $cb:expr) => {
                    match st[$i] {
                        0 => {}
                        1 => { $f.wait_node.state = RecvPollState::Registered; $f.wait_node.task = Some(if lw[$i] { mk_waker(&$ca) } else { mk_waker(&$cb) }); }
                        _ => { $f.channel = None; }
                    }
                };
            }
            setup!(f0, 0, c0a, c0b);
            setup!(f1, 1, c1a, c1b);
            setup!(f2, 2, c2a, c2b);
            {
                let mut g = ch.inner.lock();
                g.is_closed = closed;
                g.state_id = StateId(sid);
                if sid > 0 { g.value = Some(Tag(7)); }
                let mut k = 0u8;
                while k < 3 {
                    unsafe {
                        if st[0] == 1 && r[0] == k { g.waiters.add_front(&mut f0.wait_node); }
                        if st[1] == 1 && r[1] == k { g.waiters.add_front(&mut f1.wait_node); }
                        if st[2] == 1 && r[2] == k { g.waiters.add_front(&mut f2.wait_node); }
                    }
                    k += 1;
                }
            }
            let mut alive = [true; 3];
            let mut polled = 3usize;
            let mut polled_w = false;
            let mut sid2 = sid;
            let mut closed2 = closed;
            let mut val2: u8 = 7;
            let t: usize = kani::any();
            kani::assume(t < 3);
            let cls: u8 = kani::any();
            kani::assume(cls < 5);
            if cls == 0 {
                kani::assume(st[t] != 2);
                let f = match t { 0 => &mut f0, 1 => &mut f1, _ => &mut f2 };
                let wa: bool = kani::any();
                let cell = match (t, wa) {
                    (0, true) => &c0a, (0, false) => &c0b,
                    (1, true) => &c1a, (1, false) => &c1b,
                    (_, true) => &c2a, (_, false) => &c2b,
                };
                let w = ManuallyDrop::new(mk_waker(cell));
                let mut cx = Context::from_waker(&w);
                let res = unsafe { Pin::new_unchecked(&mut **f) }.poll(&mut cx);
                polled = t;
                polled_w = wa;
                let newer = sid > 0 && rid[t] < sid;
                match res {
                    Poll::Ready(Some((got, v))) => {
                        oracle!(p, P13, newer && got.0 == sid && v.0 == 7 && got.0 > rid[t], "C13 state broadcast step: receive yielded something else than the latest state newer than the requested id");
                        core::mem::forget(v);
                    }
                    Poll::Ready(None) => { oracle!(p, P13 | P11, closed && !newer, "C13 state broadcast step: receive yielded None although open or a newer state exists"); }
                    Poll::Pending => { oracle!(p, P13, !newer && !closed, "C13 state broadcast step: receive pending although a newer state exists or closed"); }
                }
            } else if cls == 1 {
                let f = match t { 0 => &mut f0, 1 => &mut f1, _ => &mut f2 };
                unsafe { ManuallyDrop::drop(f) };
                alive[t] = false;
            } else if cls == 2 {
                match ch.send(Tag(3)) {
                    Ok(()) => {
                        oracle!(p, P13 | P11, !closed && sid != u64::MAX, "C13 state broadcast step: send accepted on a closed channel or at the end of the id space");
                        sid2 = sid.wrapping_add(1);
                        val2 = 3;
                    }
                    Err(e) => {
                        oracle!(p, P13 | P11, (closed || sid == u64::MAX) && (e.0).0 == 3, "C13 state broadcast step: send rejected on an open channel, or the value was not handed back");
                        core::mem::forget(e);
                    }
                }
            } else if cls == 3 {
                let stt = ch.close();
                oracle!(p, P11 | P13, stt.is_newly_closed() == !closed, "C11 state broadcast step: close() status wrong");
                closed2 = true;
            } else {
                let id: u64 = kani::any();
                let newer = sid > 0 && id < sid;
                match ch.try_receive(StateId(id)) {
                    Some((got, v)) => {
                        oracle!(p, P13, newer && got.0 == sid && v.0 == 7, "C13 state broadcast step: try_receive yielded something else than the latest newer state");
                        core::mem::forget(v);
                    }
                    None => { oracle!(p, P13, !newer, "C13 state broadcast step: try_receive yielded None although a newer state exists"); }
                }
            }
            let t2 = [obs(&f0), obs(&f1), obs(&f2)];
            let cells_a = [&c0a, &c1a, &c2a];
            let cells_b = [&c0b, &c1b, &c2b];
            {
                let g = ch.inner.lock();
                oracle!(p, P13, g.state_id.0 == sid2 && sid2 >= sid, "C13 state broadcast step: state id did not advance by exactly one successful send (or wrapped)");
                oracle!(p, P13 | P11, g.is_closed == closed2, "C11 state broadcast step: closed flag differs from the model");
                oracle!(p, P13, g.value.is_some() == (sid2 > 0), "C13 state broadcast step: value presence differs from 'something was published'");
                if let Some(v) = &g.value { oracle!(p, P13, v.0 == val2, "C13 state broadcast step: stored value is not the latest published one"); }
            }
            i = 0;
            while i < 3 {
                if alive[i] {
                    if t2[i] == 1 {
                        oracle!(p, P13 | P11, !closed2 && !(sid2 > 0 && rid[i] < sid2), "C13 state broadcast step: a receiver stays registered although a newer state exists or the channel is closed");
                    }
                    if (cls == 2 && sid2 != sid || cls == 3 && !closed) && st[i] == 1 {
                        let c = if lw[i] { cells_a[i] } else { cells_b[i] };
                        oracle!(p, P13 | P11, c.n() == 1, "C13 state broadcast step: send/close did not wake a registered receiver through its latest waker");
                    }
                }
                i += 1;
            }
            if (p & (P01 | P13)) != 0 {
                let g = ch.inner.lock();
                let nodes: [*const Node; 3] = [&f0.wait_node, &f1.wait_node, &f2.wait_node];
                let len = g.waiters.verif_len_checked(3);
                if (p & P01) != 0 { assert!(len.is_some(), "C01 state broadcast step: wait queue links are inconsistent"); }
                let mut cnt = 0usize;
                i = 0;
                while i < 3 {
                    let should = alive[i] && t2[i] == 1;
                    let pos = g.waiters.verif_pos_from_tail(nodes[i], 3);
                    if (p & P01) != 0 { assert!(pos.is_some() == should, "C01 state broadcast step: wait queue membership differs from {alive and registered}"); }
                    let nd = unsafe { &*nodes[i] };
                    if !should { if (p & P01) != 0 { assert!(nd.verif_unlinked(), "C01 state broadcast step: a future outside the queue still carries links"); } }
                    if should {
                        cnt += 1;
                        let lwc: &WakeCell = if i == polled { if polled_w { cells_a[i] } else { cells_b[i] } }
                                             else if lw[i] { cells_a[i] } else { cells_b[i] };
                        let ok = match &nd.task { Some(w) => w.will_wake(&ManuallyDrop::new(mk_waker(lwc))), None => false };
                        if (p & P01) != 0 { assert!(ok, "C01 state broadcast step: registered future does not store the waker of its latest poll"); }
                        if (p & P13) != 0 { assert!(ok, "C13 state broadcast step: registered future does not store the waker of its latest poll (it would be woken through a stale waker)"); }
                    }
                    i += 1;
                }
                if (p & P01) != 0 { assert!(len == Some(cnt), "C01 state broadcast step: wait queue holds a node that is not a live registered future"); }
            }
            if (p & P17) != 0 {
                if alive[0] { assert!(f0.is_terminated() == (t2[0] == 2), "C17 state broadcast step: is_terminated() differs from 'completed'"); }
                if alive[1] { assert!(f1.is_terminated() == (t2[1] == 2), "C17 state broadcast step: is_terminated() differs from 'completed'"); }
                if alive[2] { assert!(f2.is_terminated() == (t2[2] == 2), "C17 state broadcast step: is_terminated() differs from 'completed'"); }
            }
            kani::cover!(cls == 2 && sid2 != sid && st[0] == 1 && st[1] == 1, "W state step: send with two registered receivers");
            kani::cover!(cls == 2 && sid == u64::MAX, "W state step: send at the end of the id space");
            core::mem::forget(ch);
        }
    }

    #[cfg(kani)]
    mod proofs {
        use super::*;
        #[kani::proof]
        #[kani::unwind(3)]
        fn contended_c13() { let b = contended_scenario(&mut KaniSrc, P13); kani::cover!(b == 1, "W state: waited, then woken"); }
        #[kani::proof]
        #[kani::unwind(4)]
        fn repoll_panics() {
            let ch = Chan::<NoopLock>::new();
            // both completion paths: Some((id, value)) after send, None after close (with or without a state)
            let sent: bool = kani::any();
            let closed: bool = kani::any();
            kani::assume(sent || closed);
            if sent { core::mem::forget(ch.send(Tag(1))); }
            if closed { let _ = ch.close(); }
            repoll_after_ready(ch.receive(if sent && closed && kani::any() { StateId(1) } else { StateId(0) }));
        }
        #[kani::proof]
        #[kani::unwind(7)]
        #[kani::stub(alloc::alloc::alloc, crate::verif::common::stub_alloc)]
        #[kani::stub(alloc::alloc::dealloc, crate::verif::common::stub_dealloc)]
        #[kani::stub(alloc::alloc::realloc, crate::verif::common::stub_realloc)]
        #[kani::stub(alloc::fmt::format, crate::verif::common::stub_format)]
        fn hist_c18_n5() { let _ = hist::<NoopLock, _>(&mut KaniSrc, 0, 5, P18); }
        macro_rules! hist_proof {
            ($name:ident, $lock:ty, $n:expr, $p:expr, $unw:expr) => {
                #[kani::proof]
                #[kani::unwind($unw)]
                fn $name() {
                    let bits = hist::<$lock, _>(&mut KaniSrc, 0, $n, $p);
                    kani::cover!(bits & W_FOLLOWER != 0, "W follower received a newer state");
                }
            };
        }
        hist_proof!(hist_c13_n5, NoopLock, 5, P13, 7);
        hist_proof!(hist_c13_n6, NoopLock, 6, P13, 8);
        hist_proof!(hist_c13_n7, NoopLock, 7, P13, 9);
        hist_proof!(hist_c13_n8, NoopLock, 8, P13, 10);
        hist_proof!(hist_c13_n6_check, CheckLock, 6, P13, 8);
        hist_proof!(hist_c11_n5, NoopLock, 5, P11, 7);
        hist_proof!(hist_c11_n7, NoopLock, 7, P11, 9);
        hist_proof!(hist_c17_n5, NoopLock, 5, P17, 7);
        hist_proof!(hist_c17_n7, NoopLock, 7, P17, 9);
        hist_proof!(hist_c01_n5, NoopLock, 5, P01, 7);
        hist_proof!(hist_c01_n5_check, CheckLock, 5, P01, 7);

        #[kani::proof]
        #[kani::unwind(7)]
        fn step_c13() { step::run::<NoopLock>(P13) }
        #[kani::proof]
        #[kani::unwind(7)]
        fn step_c11() { step::run::<NoopLock>(P11) }
        #[kani::proof]
        #[kani::unwind(7)]
        fn step_c01() { step::run::<NoopLock>(P01) }
        #[kani::proof]
        #[kani::unwind(7)]
        fn step_c01_check() { step::run::<CheckLock>(P01) }
        #[kani::proof]
        #[kani::unwind(7)]
        fn step_c17() { step::run::<NoopLock>(P17) }

        #[kani::proof]
        #[kani::unwind(8)]
        fn witness_follower_n6() {
            let bits = hist::<NoopLock, _>(&mut KaniSrc, 0, 6, 0);
            assert!(bits & (W_FOLLOWER | W_SEND_WAKES_TWO) != (W_FOLLOWER | W_SEND_WAKES_TWO), "WITNESS reached");
        }
    }
}

// verification harness include for state_broadcast (see /verif/DESIGN.md)

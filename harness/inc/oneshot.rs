// Included at the end of /repo/src/channel/oneshot.rs under cfg(futures_intrusive_verif).
pub(crate) mod verif_oneshot {
    use super::*;
    use crate::verif::common::*;
    use core::future::Future;
    use core::mem::ManuallyDrop;
    use core::pin::Pin;
    use futures_core::future::FusedFuture;

    type Chan<M> = GenericOneshotChannel<M, Tag>;
    const BROADCAST: bool = false;

    include!(concat!(env!("FI_VERIF_INC"), "/oneshot_common.rs"));

    #[no_mangle]
    pub fn fi_verif_replay_oneshot(name: &str, cfg: u32, p: u32, s: &mut ScriptSrc<'_>) -> bool {
        match name {
            "oneshot_hist_noop" => { hist::<NoopLock, _>(s, cfg, 64, p); }
            "oneshot_hist_check" => { hist::<CheckLock, _>(s, cfg, 64, p); }
            _ => return false,
        }
        true
    }
}

// verification harness include for oneshot (see /verif/DESIGN.md)

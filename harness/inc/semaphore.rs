// verification harness include for semaphore (see /verif/DESIGN.md)

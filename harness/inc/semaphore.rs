// Included at the end of /repo/src/sync/semaphore.rs under cfg(futures_intrusive_verif).
// Semaphore harnesses (borrowed flavour): E-HIST interpreter through the public API
// and E-STEP inductive step. Properties C05, C06, C07 (+ C01, C17 parts).

pub(crate) mod verif_sem {
    use super::*;
    use crate::verif::common::*;
    use core::mem::ManuallyDrop;

    macro_rules! oracle {
        ($p:expr, $mask:expr, $cond:expr, $msg:literal) => {
            if ($p & $mask) != 0 {
                assert!($cond, $msg);
            }
        };
    }

    pub const K: usize = 3;
    pub const W_RELEASE_WAKES_HEAD: u32 = 1; // >= 2 pending, a release/releaser drop made the head fit and woke it
    pub const W_CANCEL_HEAD: u32 = 2; // the pending head was cancelled while another request was pending behind it
    pub const W_REQUEUE: u32 = 4; // a woken future found too few permits and went back to waiting (unfair)
    pub const W_READY_AFTER_WAIT: u32 = 8;

    /// Bounded history through the public API.
    /// cfg: bits 0-1 fairness (0 unfair, 1 fair, 2 symbolic); bits 2-3 `pre` = number of leading
    /// operations fixed to "poll slot k with waker A" (a partition of the script space);
    /// bits 4-5 number of future slots in use (0 = all three).
    /// Symmetry breaking (slots and the two wakers of a slot are interchangeable): slot i+1 is first
    /// polled only after slot i was, and the first poll of a future uses waker A.
    pub fn hist<M: RawMutex, S: Src>(s: &mut S, cfg: u32, n: usize, p: u32) -> u32 {
        let fmode = cfg & 3;
        let pre = ((cfg >> 2) & 3) as usize;
        let kslots = if (cfg >> 4) & 3 == 0 { K } else { ((cfg >> 4) & 3) as usize };
        // bit 6 "steal" partition: after the `pre` fixed polls the next two operations are fixed to release(a) and
        // try_acquire(b) with symbolic amounts (a notified waiter whose permits may get stolen)
        let steal = (cfg >> 6) & 1 == 1;
        let fair = if fmode == 2 { s.flag() } else { fmode == 1 };
        let init = s.below(4) as usize;
        let sem = GenericSemaphore::<M>::new(fair, init);
        let (c0a, c0b, c1a, c1b, c2a, c2b) = (
            WakeCell::new(), WakeCell::new(), WakeCell::new(),
            WakeCell::new(), WakeCell::new(), WakeCell::new(),
        );
        let mut q = [s.below(4) as usize, s.below(4) as usize, s.below(4) as usize];
        let mut f0 = ManuallyDrop::new(sem.acquire(q[0]));
        let mut f1 = ManuallyDrop::new(sem.acquire(q[1]));
        let mut f2 = ManuallyDrop::new(sem.acquire(q[2]));
        // releasers owned by the harness: one per future slot + one for try_acquire
        // (ManuallyDrop + ptr::read/write: exactly one real Releaser::drop call site in the formula)
        let mut r0: ManuallyDrop<Option<GenericSemaphoreReleaser<'_, M>>> = ManuallyDrop::new(None);
        let mut r1: ManuallyDrop<Option<GenericSemaphoreReleaser<'_, M>>> = ManuallyDrop::new(None);
        let mut r2: ManuallyDrop<Option<GenericSemaphoreReleaser<'_, M>>> = ManuallyDrop::new(None);
        let mut r3: ManuallyDrop<Option<GenericSemaphoreReleaser<'_, M>>> = ManuallyDrop::new(None);
        let mut held = [0usize; 4]; // amount each live releaser will give back
        let mut has = [false; 4];
        if (p & P18) != 0 { arm_alloc(); }

        let mut alive = [true; K];
        let mut pending = [false; K];
        let mut done = [false; K];
        let mut lw = [0u8; K];
        let mut snap = [0u32; K];
        let mut stamp = [0u32; K];
        let mut clock = 0u32;
        let mut ever = [false; K]; // slot was polled at least once (symmetry breaking)
        let mut dead = [false; K]; // slot's future was dropped and not re-created yet
        let mut dsn = [[0u32; 2]; K]; // wake counts of its two wakers just before the drop
        let mut fresh = [true; K]; // current future of the slot not polled yet
        // reference ledger: permits() must equal it
        let mut ledger: usize = init;
        let mut bits = 0u32;

        let mut step = 0;
        while step < n && !s.exhausted() {
            step += 1;
            let op = if step <= pre { ((step - 1) * 2) as u8 }
                     else if steal && step == pre + 1 { 17 }
                     else if steal && step == pre + 2 { 18 }
                     else { s.below(19) };
            let mut was_release = false;
            if op < 6 {
                // ---- poll slot i with waker w ----
                let i = (op / 2) as usize;
                let w = op % 2;
                s.assume(i < kslots && !done[i]);
                s.assume(i == 0 || ever[i - 1]);
                s.assume(!fresh[i] || w == 0);
                ever[i] = true;
                let f = match i { 0 => &mut f0, 1 => &mut f1, _ => &mut f2 };
                if !alive[i] {
                    s.assume(!has[i]); // its previous releaser was given back first (keeps the ledger small)
                    q[i] = s.below(4) as usize;
                    *f = ManuallyDrop::new(sem.acquire(q[i]));
                    alive[i] = true;
                    dead[i] = false;
                    fresh[i] = true;
                    oracle!(p, P17, !f.is_terminated(), "C17 semaphore: fresh acquire future reports terminated");
                }
                let cell = match (i, w) {
                    (0, 0) => &c0a, (0, _) => &c0b,
                    (1, 0) => &c1a, (1, _) => &c1b,
                    (_, 0) => &c2a, (_, _) => &c2b,
                };
                let woken_before = pending[i] && {
                    let lc = match (i, lw[i]) {
                        (0, 0) => &c0a, (0, _) => &c0b,
                        (1, 0) => &c1a, (1, _) => &c1b,
                        (_, 0) => &c2a, (_, _) => &c2b,
                    };
                    lc.n() > snap[i]
                };
                let was_pending = pending[i];
                fresh[i] = false;
                let waker = ManuallyDrop::new(mk_waker(cell));
                let mut cx = Context::from_waker(&waker);
                let r = unsafe { Pin::new_unchecked(&mut **f) }.poll(&mut cx);
                match r {
                    Poll::Ready(rel) => {
                        oracle!(p, P05, ledger >= q[i], "C05 semaphore: acquire future completed with fewer permits available than requested");
                        if fair && q[i] > 0 {
                            let mut j = 0;
                            while j < K {
                                if j != i && alive[j] && pending[j] {
                                    oracle!(p, P07, was_pending && stamp[j] > stamp[i],
                                        "C07 fair semaphore: a request completed ahead of an earlier pending request");
                                }
                                j += 1;
                            }
                        }
                        if was_pending { bits |= W_READY_AFTER_WAIT; }
                        ledger = ledger.wrapping_sub(q[i]);
                        pending[i] = false;
                        done[i] = true;
                        has[i] = true;
                        held[i] = q[i];
                        let slot = match i { 0 => &mut r0, 1 => &mut r1, _ => &mut r2 };
                        unsafe { core::ptr::write(&mut **slot, Some(rel)) };
                    }
                    Poll::Pending => {
                        oracle!(p, P07, q[i] > 0, "C07 semaphore: a request for zero permits did not complete immediately");
                        if !pending[i] {
                            clock += 1;
                            stamp[i] = clock;
                        } else if woken_before && !fair {
                            // woken, found too few permits, went back to waiting: its wait restarts
                            clock += 1;
                            stamp[i] = clock;
                            bits |= W_REQUEUE;
                        }
                        pending[i] = true;
                        lw[i] = w;
                        snap[i] = cell.n();
                    }
                }
            } else if op < 9 {
                // ---- cancel (drop) future i ----
                let i = (op - 6) as usize;
                // (dropping a never-polled or completed future is covered by E-STEP; pruned here)
                s.assume(i < kslots && alive[i] && pending[i]);
                let f = match i { 0 => &mut f0, 1 => &mut f1, _ => &mut f2 };
                if pending[i] {
                    let mut older = false;
                    let mut others = false;
                    let mut j = 0;
                    while j < K {
                        if j != i && pending[j] { others = true; if stamp[j] < stamp[i] { older = true; } }
                        j += 1;
                    }
                    if others && !older { bits |= W_CANCEL_HEAD; }
                }
                dsn[i] = match i { 0 => [c0a.n(), c0b.n()], 1 => [c1a.n(), c1b.n()], _ => [c2a.n(), c2b.n()] };
                dead[i] = true;
                unsafe { ManuallyDrop::drop(f) };
                alive[i] = false;
                pending[i] = false;
                done[i] = false;
            } else if op < 13 {
                // ---- drop releaser j ----
                let j = (op - 9) as usize;
                s.assume(has[j]);
                let slot = match j { 0 => &mut r0, 1 => &mut r1, 2 => &mut r2, _ => &mut r3 };
                let rel = unsafe { core::ptr::read(&**slot) };
                unsafe { core::ptr::write(&mut **slot, None) };
                match rel {
                    Some(rel) => drop(rel), // the real Releaser::drop
                    None => s.assume(false),
                }
                ledger += held[j];
                has[j] = false;
                held[j] = 0;
                was_release = true;
            } else if op < 17 {
                // ---- disarm releaser j (it keeps existing and will give back nothing) ----
                let j = (op - 13) as usize;
                s.assume(has[j] && (p & P05) != 0); // disarm only matters for the ledger (C05)
                let slot = match j { 0 => &mut r0, 1 => &mut r1, 2 => &mut r2, _ => &mut r3 };
                let got = match (**slot).as_mut() {
                    Some(rel) => rel.disarm(),
                    None => { s.assume(false); 0 }
                };
                oracle!(p, P05, got == held[j], "C05 semaphore: disarm() did not return the amount the releaser held");
                held[j] = 0;
            } else if op == 17 {
                let a = s.below(4) as usize;
                s.assume(a > 0);
                sem.release(a);
                ledger += a;
                was_release = true;
            } else {
                let a = s.below(4) as usize;
                s.assume(!has[3]);
                let any_pending = pending[0] || pending[1] || pending[2];
                match sem.try_acquire(a) {
                    Some(rel) => {
                        oracle!(p, P05, ledger >= a, "C05 semaphore: try_acquire succeeded with fewer permits available than requested");
                        if fair && a > 0 {
                            oracle!(p, P07, !any_pending, "C07 fair semaphore: try_acquire overtook a pending request");
                        }
                        ledger = ledger.wrapping_sub(a);
                        has[3] = true;
                        held[3] = a;
                        unsafe { core::ptr::write(&mut *r3, Some(rel)) };
                    }
                    None => {
                        oracle!(p, P07, a > 0, "C07 semaphore: try_acquire(0) failed");
                    }
                }
            }

            oracle!(p, P18, alloc_events() == 0, "C18 semaphore: an operation allocated or freed heap memory");
            // ================= oracles after every operation =================
            oracle!(p, P05, sem.permits() == ledger, "C05 semaphore: permits() differs from initial + released - outstanding");
            let wk0 = pending[0] && (if lw[0] == 0 { c0a.n() } else { c0b.n() }) > snap[0];
            let wk1 = pending[1] && (if lw[1] == 0 { c1a.n() } else { c1b.n() }) > snap[1];
            let wk2 = pending[2] && (if lw[2] == 0 { c2a.n() } else { c2b.n() }) > snap[2];
            if pending[0] || pending[1] || pending[2] {
                let mut h = K;
                let mut j = 0;
                while j < K {
                    if pending[j] && (h == K || stamp[j] < stamp[h]) { h = j; }
                    j += 1;
                }
                if !(wk0 || wk1 || wk2) {
                    oracle!(p, P06, h < K && q[h] > sem.permits(),
                        "C06 semaphore: the longest-waiting request fits into the available permits but no pending future holds a wake-up");
                }
                let np = pending[0] as u8 + pending[1] as u8 + pending[2] as u8;
                if was_release && np >= 2 && h < K && [wk0, wk1, wk2][h] { bits |= W_RELEASE_WAKES_HEAD; }
            }
            if (p & P01) != 0 {
                // C01: a dropped future is in no wait queue any more, so its task is never woken again
                if dead[0] { assert!(c0a.n() == dsn[0][0] && c0b.n() == dsn[0][1], "C01 semaphore: the task of a dropped future was woken (dangling waiter)"); }
                if dead[1] { assert!(c1a.n() == dsn[1][0] && c1b.n() == dsn[1][1], "C01 semaphore: the task of a dropped future was woken (dangling waiter)"); }
                if dead[2] { assert!(c2a.n() == dsn[2][0] && c2b.n() == dsn[2][1], "C01 semaphore: the task of a dropped future was woken (dangling waiter)"); }
            }
            if (p & P01) != 0 {
                // C01 directly on the queue: a completed future (or one that was never polled) is not a member of the wait queue
                let g = sem.state.lock();
                if alive[0] && (done[0] || fresh[0]) { assert!(g.waiters.verif_pos_from_tail(&f0.wait_node as *const _, 3).is_none(), "C01 semaphore: a completed (or never polled) acquire future is still linked in the wait queue"); }
                if alive[1] && (done[1] || fresh[1]) { assert!(g.waiters.verif_pos_from_tail(&f1.wait_node as *const _, 3).is_none(), "C01 semaphore: a completed (or never polled) acquire future is still linked in the wait queue"); }
                if alive[2] && (done[2] || fresh[2]) { assert!(g.waiters.verif_pos_from_tail(&f2.wait_node as *const _, 3).is_none(), "C01 semaphore: a completed (or never polled) acquire future is still linked in the wait queue"); }
                let npend = (alive[0] && pending[0]) as usize + (alive[1] && pending[1]) as usize + (alive[2] && pending[2]) as usize;
                match g.waiters.verif_len_checked(4) {
                    Some(l) => assert!(l <= npend, "C01 semaphore: the wait queue holds more nodes than there are live pending futures"),
                    None => assert!(false, "C01 semaphore: the wait queue's links are inconsistent"),
                }
            }
            if (p & P17) != 0 {
                if alive[0] { assert!(f0.is_terminated() == done[0], "C17 semaphore: is_terminated() differs from 'completed'"); }
                if alive[1] { assert!(f1.is_terminated() == done[1], "C17 semaphore: is_terminated() differs from 'completed'"); }
                if alive[2] { assert!(f2.is_terminated() == done[2], "C17 semaphore: is_terminated() differs from 'completed'"); }
            }
        }
        s.reached(bits);
        bits
    }

    /// C06 "woken through the waker of its latest poll", for wakers that differ only in their vtable.
    pub fn waker_identity<M: RawMutex, S: Src>(s: &mut S, p: u32) -> u32 {
        let fair = s.flag();
        let sem = GenericSemaphore::<M>::new(fair, 0);
        let c = DualCell::new();
        let mut f = ManuallyDrop::new(sem.acquire(1));
        let both_pending = dual_repoll(unsafe { Pin::new_unchecked(&mut *f) }, &c);
        oracle!(p, P05, both_pending, "C05 semaphore: acquire(1) completed although no permit is available");
        sem.release(1);
        if both_pending {
            oracle!(p, P06, c.b.get() >= 1, "C06 semaphore: the head request fits but was not woken through the waker of its latest poll (same data pointer, other vtable)");
        }
        s.reached(c.b.get());
        c.b.get()
    }

    #[no_mangle]
    pub fn fi_verif_replay_sem(name: &str, cfg: u32, p: u32, s: &mut ScriptSrc<'_>) -> bool {
        match name {
            "sem_waker_identity" => { waker_identity::<NoopLock, _>(s, p); }
            "sem_hist_noop" => { hist::<NoopLock, _>(s, cfg, 64, p); }
            "sem_hist_check" => { hist::<CheckLock, _>(s, cfg, 64, p); }
            _ => return false,
        }
        true
    }

    // =====================================================================
    // E-STEP: one real operation from an arbitrary state satisfying Inv_sem.
    // Invariant parts and their owners:
    //   S1,S2 (queue membership; waiting => stored waker = latest)        -> C01
    //   L1    (every operation changes permits by exactly its amount)     -> C05
    //   S4    (pending & nobody notified => head request > permits),
    //         notified => woken through the latest waker                  -> C06
    //   S0,S3,R6 (zero requests never wait; fair: only the oldest member is
    //         notified and its permits are reserved; queue = arrival order) -> C07
    // =====================================================================
    #[cfg(kani)]
    pub mod step {
        use super::*;
        type Node = ListNode<WaitQueueEntry>;

        // 0 New, 1 Waiting, 2 Notified, 3 Done
        fn any_st() -> u8 { let x: u8 = kani::any(); kani::assume(x < 4); x }
        fn obs<M: RawMutex>(f: &GenericSemaphoreAcquireFuture<'_, M>) -> u8 {
            match f.wait_node.state { PollState::New => 0, PollState::Waiting => 1, PollState::Notified => 2, PollState::Done => 3 }
        }

        /// class: 0 poll, 1 drop future, 2 release / releaser drop, 3 try_acquire, 4 any
        pub fn run<M: RawMutex>(fair_cfg: u8, class: u8, amax: usize, p: u32) -> u32 {
            let fair: bool = if fair_cfg == 2 { kani::any() } else { fair_cfg == 1 };
            let permits: usize = kani::any();
            kani::assume(permits <= amax);
            let sem = GenericSemaphore::<M>::new(fair, permits);
            let (c0a, c0b, c1a, c1b, c2a, c2b) = (
                WakeCell::new(), WakeCell::new(), WakeCell::new(),
                WakeCell::new(), WakeCell::new(), WakeCell::new(),
            );
            let q: [usize; 3] = [kani::any(), kani::any(), kani::any()];
            kani::assume(q[0] <= amax && q[1] <= amax && q[2] <= amax);
            let mut f0 = ManuallyDrop::new(sem.acquire(q[0]));
            let mut f1 = ManuallyDrop::new(sem.acquire(q[1]));
            let mut f2 = ManuallyDrop::new(sem.acquire(q[2]));
            let st = [any_st(), any_st(), any_st()];
            let lw: [bool; 3] = [kani::any(), kani::any(), kani::any()];
            let r: [u8; 3] = [kani::any(), kani::any(), kani::any()]; // wait-order rank, 0 = oldest
            kani::assume(r[0] < 3 && r[1] < 3 && r[2] < 3 && r[0] != r[1] && r[1] != r[2] && r[0] != r[2]);
            let linked = |x: u8| x == 1 || (fair && x == 2);
            let pend = |x: u8| x == 1 || x == 2;
            let lk = [linked(st[0]), linked(st[1]), linked(st[2])];
            // ---- Inv (assumed) ----
            let mut i = 0;
            while i < 3 {
                if pend(st[i]) { kani::assume(q[i] > 0); } // S0
                if fair && st[i] == 2 {
                    // S3: only the oldest member may be notified, and its permits are reserved
                    let mut j = 0;
                    while j < 3 {
                        if j != i && lk[j] { kani::assume(r[j] > r[i]); }
                        j += 1;
                    }
                    kani::assume(permits >= q[i]);
                }
                i += 1;
            }
            let any_pend = pend(st[0]) || pend(st[1]) || pend(st[2]);
            let any_not = st[0] == 2 || st[1] == 2 || st[2] == 2;
            if any_pend && !any_not {
                // S4
                let mut h = 3;
                i = 0;
                while i < 3 { if pend(st[i]) && (h == 3 || r[i] < r[h]) { h = i; } i += 1; }
                kani::assume(q[h] > permits);
            }
            if !fair {
                // S5 (unfair): the oldest waiter that is still queued does not fit into what is left after
                // the already notified (dequeued) futures take their share - the wake-up loop only stops there.
                let mut sum = 0usize;
                let mut h = 3;
                i = 0;
                while i < 3 {
                    if st[i] == 2 { sum = sum.saturating_add(q[i]); }
                    if st[i] == 1 && (h == 3 || r[i] < r[h]) { h = i; }
                    i += 1;
                }
                if h < 3 { kani::assume(q[h].saturating_add(sum) > permits); }
            }
            macro_rules! setup {
                ($f:ident, $i:expr, $ca:expr, $cb:expr) => {
                    match st[$i] {
                        0 => {}
                        1 => { $f.wait_node.state = PollState::Waiting; $f.wait_node.task = Some(if lw[$i] { mk_waker(&$ca) } else { mk_waker(&$cb) }); }
                        2 => { $f.wait_node.state = PollState::Notified; $f.wait_node.task = Some(if lw[$i] { mk_waker(&$ca) } else { mk_waker(&$cb) }); }
                        _ => { $f.wait_node.state = PollState::Done; $f.semaphore = None; }
                    }
                };
            }
            setup!(f0, 0, c0a, c0b);
            setup!(f1, 1, c1a, c1b);
            setup!(f2, 2, c2a, c2b);
            {
                let mut g = sem.state.lock();
                let mut k = 0u8;
                while k < 3 {
                    unsafe {
                        if lk[0] && r[0] == k { g.waiters.add_front(&mut f0.wait_node); }
                        if lk[1] && r[1] == k { g.waiters.add_front(&mut f1.wait_node); }
                        if lk[2] && r[2] == k { g.waiters.add_front(&mut f2.wait_node); }
                    }
                    k += 1;
                }
            }
            let mut alive = [true; 3];
            let mut polled = 3usize;
            let mut polled_w = false;
            let mut snap = 0u32;
            let mut requeued = 3usize; // newly waiting or re-queued after a failed notified poll: youngest now
            let mut granted: Option<usize> = None; // amount granted in this step
            let mut expected: usize = permits; // L1

            // ---- one real operation ----
            let t: usize = kani::any();
            kani::assume(t < 3);
            let cls: u8 = if class == 4 { kani::any() } else { class };
            kani::assume(cls < 4);
            let amount: usize = kani::any();
            kani::assume(amount <= amax);
            if cls == 0 {
                let f = match t { 0 => &mut f0, 1 => &mut f1, _ => &mut f2 };
                kani::assume(st[t] != 3);
                let wa: bool = kani::any();
                let cell = match (t, wa) {
                    (0, true) => &c0a, (0, false) => &c0b,
                    (1, true) => &c1a, (1, false) => &c1b,
                    (_, true) => &c2a, (_, false) => &c2b,
                };
                let w = ManuallyDrop::new(mk_waker(cell));
                let mut cx = Context::from_waker(&w);
                let res = unsafe { Pin::new_unchecked(&mut **f) }.poll(&mut cx);
                polled = t;
                polled_w = wa;
                snap = cell.n();
                match res {
                    Poll::Ready(rel) => {
                        oracle!(p, P05, rel.permits == q[t], "C05 semaphore step: releaser does not hold the granted amount");
                        core::mem::forget(rel);
                        granted = Some(q[t]);
                        expected = permits.wrapping_sub(q[t]);
                    }
                    Poll::Pending => {
                        if st[t] == 0 || st[t] == 2 { requeued = t; }
                    }
                }
            } else if cls == 1 {
                let f = match t { 0 => &mut f0, 1 => &mut f1, _ => &mut f2 };
                unsafe { ManuallyDrop::drop(f) };
                alive[t] = false;
            } else if cls == 2 {
                let via_releaser: bool = kani::any();
                if via_releaser {
                    drop(GenericSemaphoreReleaser::<'_, M> { semaphore: &sem, permits: amount });
                } else {
                    sem.release(amount);
                }
                expected = permits + amount;
            } else {
                if let Some(rel) = sem.try_acquire(amount) {
                    oracle!(p, P05, rel.permits == amount, "C05 semaphore step: try_acquire releaser does not hold the granted amount");
                    core::mem::forget(rel);
                    granted = Some(amount);
                    expected = permits.wrapping_sub(amount);
                } else {
                    oracle!(p, P07, amount > 0, "C07 semaphore step: try_acquire(0) failed");
                }
            }

            // ---- post-state ----
            let p2 = sem.permits();
            let t2 = [obs(&f0), obs(&f1), obs(&f2)];
            let pd2 = [alive[0] && pend(t2[0]), alive[1] && pend(t2[1]), alive[2] && pend(t2[2])];
            let cells_a = [&c0a, &c1a, &c2a];
            let cells_b = [&c0b, &c1b, &c2b];

            // C05 / L1
            oracle!(p, P05, p2 == expected, "C05 semaphore step: permits changed by something else than the operation's amount");
            if let Some(g) = granted {
                oracle!(p, P05, permits >= g, "C05 semaphore step: a request completed with fewer permits available than requested");
            }

            // C06: notified => woken through the latest waker; S4
            i = 0;
            while i < 3 {
                if alive[i] && t2[i] == 2 && st[i] != 2 {
                    let c = if i == polled { if polled_w { cells_a[i] } else { cells_b[i] } }
                            else if lw[i] { cells_a[i] } else { cells_b[i] };
                    let base = if i == polled { snap } else { 0 };
                    oracle!(p, P06, c.n() > base, "C06 semaphore step: future notified but not woken through its latest waker");
                }
                i += 1;
            }
            let eff = |i: usize| -> u8 { if i == requeued { 10 } else { r[i] } };
            let any_not2 = (pd2[0] && t2[0] == 2) || (pd2[1] && t2[1] == 2) || (pd2[2] && t2[2] == 2);
            if (pd2[0] || pd2[1] || pd2[2]) && !any_not2 {
                let mut h = 3;
                i = 0;
                while i < 3 { if pd2[i] && (h == 3 || eff(i) < eff(h)) { h = i; } i += 1; }
                oracle!(p, P06, q[h] > p2, "C06 semaphore step: the longest-waiting request fits but no pending future holds a wake-up");
            }

            if !fair {
                // S5'
                let mut sum = 0usize;
                let mut h = 3;
                i = 0;
                while i < 3 {
                    if pd2[i] && t2[i] == 2 { sum = sum.saturating_add(q[i]); }
                    if pd2[i] && t2[i] == 1 && (h == 3 || eff(i) < eff(h)) { h = i; }
                    i += 1;
                }
                if h < 3 {
                    oracle!(p, P06, q[h].saturating_add(sum) > p2,
                        "C06 semaphore step: the oldest queued request fits into the permits not claimed by notified futures, but was not notified");
                }
            }

            // C07 / S0, S3, order
            i = 0;
            while i < 3 {
                if pd2[i] { oracle!(p, P07, q[i] > 0, "C07 semaphore step: a request for zero permits is waiting"); }
                i += 1;
            }
            if fair {
                if let Some(g) = granted {
                    if g > 0 {
                        i = 0;
                        while i < 3 {
                            if i != polled && pend(st[i]) {
                                oracle!(p, P07, polled < 3 && pend(st[polled]) && r[i] > r[polled],
                                    "C07 fair semaphore step: a request completed ahead of an earlier pending request");
                            }
                            i += 1;
                        }
                    }
                }
                i = 0;
                while i < 3 {
                    if pd2[i] && t2[i] == 2 {
                        oracle!(p, P07, p2 >= q[i], "C07 fair semaphore step: notified head without reserved permits");
                        let mut j = 0;
                        while j < 3 {
                            if j != i && pd2[j] {
                                oracle!(p, P07, eff(j) > eff(i), "C07 fair semaphore step: notified future is not the longest-waiting one");
                            }
                            j += 1;
                        }
                    }
                    i += 1;
                }
            }

            // C01 / S1, S2 (+ fair: queue order = arrival order, owned by C07)
            if (p & (P01 | P07 | P06)) != 0 {
                let g = sem.state.lock();
                let nodes: [*const Node; 3] = [&f0.wait_node, &f1.wait_node, &f2.wait_node];
                let len = g.waiters.verif_len_checked(3);
                if (p & P01) != 0 { assert!(len.is_some(), "C01 semaphore step: wait queue links are inconsistent"); }
                let mut cnt = 0usize;
                let mut pos = [None, None, None];
                i = 0;
                while i < 3 {
                    let should = alive[i] && linked(t2[i]);
                    pos[i] = g.waiters.verif_pos_from_tail(nodes[i], 3);
                    if (p & P01) != 0 {
                        assert!(pos[i].is_some() == should, "C01 semaphore step: wait queue membership differs from {alive and waiting}");
                        if !should {
                            let nd = unsafe { &*nodes[i] };
                            assert!(nd.verif_unlinked(), "C01 semaphore step: a future outside the queue still carries links");
                        }
                    }
                    if should { cnt += 1; }
                    i += 1;
                }
                if (p & P01) != 0 {
                    assert!(len == Some(cnt), "C01 semaphore step: wait queue holds a node that is not a live waiting future");
                }
                if (p & (P01 | P06)) != 0 {
                    i = 0;
                    while i < 3 {
                        if alive[i] && t2[i] == 1 {
                            let nd = unsafe { &*nodes[i] };
                            let lwc: &WakeCell = if i == polled { if polled_w { cells_a[i] } else { cells_b[i] } }
                                                 else if lw[i] { cells_a[i] } else { cells_b[i] };
                            let ok = match &nd.task { Some(w) => w.will_wake(&ManuallyDrop::new(mk_waker(lwc))), None => false };
                            if (p & P01) != 0 { assert!(ok, "C01 semaphore step: waiting future does not store the waker of its latest poll"); }
                            if (p & P06) != 0 { assert!(ok, "C06 semaphore step: waiting future does not store the waker of its latest poll (it would be woken through a stale waker)"); }
                        }
                        i += 1;
                    }
                }
                if fair && (p & P07) != 0 {
                    i = 0;
                    while i < 3 {
                        let mut j = 0;
                        while j < 3 {
                            if let (Some(a), Some(b)) = (pos[i], pos[j]) {
                                if i != j && eff(i) < eff(j) {
                                    assert!(a < b, "C07 fair semaphore step: queue order differs from arrival order");
                                }
                            }
                            j += 1;
                        }
                        i += 1;
                    }
                }
            }
            if (p & P17) != 0 {
                if alive[0] { assert!(f0.is_terminated() == (t2[0] == 3), "C17 semaphore step: is_terminated() differs from 'completed'"); }
                if alive[1] { assert!(f1.is_terminated() == (t2[1] == 3), "C17 semaphore step: is_terminated() differs from 'completed'"); }
                if alive[2] { assert!(f2.is_terminated() == (t2[2] == 3), "C17 semaphore step: is_terminated() differs from 'completed'"); }
                if granted.is_some() && polled < 3 { assert!(t2[polled] == 3, "C17 semaphore step: completed future not marked done"); }
            }
            let mut wb = 0u32;
            if cls == 1 && st[t] == 1 && (pd2[0] || pd2[1] || pd2[2]) { wb |= 1; } // waiting future cancelled with others pending
            if cls == 0 && st[t] == 2 && granted.is_none() { wb |= 2; } // notified future goes back to waiting
            if cls == 2 && any_not2 && !any_not { wb |= 4; } // release notifies a waiter
            if cls == 3 && granted.is_some() && any_pend { wb |= 8; } // try_acquire succeeds while requests are pending
            wb
        }

        pub fn base<M: RawMutex>() {
            let fair: bool = kani::any();
            let n: usize = kani::any();
            let sem = GenericSemaphore::<M>::new(fair, n);
            let f0 = ManuallyDrop::new(sem.acquire(kani::any()));
            assert!(sem.permits() == n, "C05 semaphore base: fresh semaphore does not hold the initial permits");
            assert!(obs(&f0) == 0 && f0.wait_node.verif_unlinked() && f0.wait_node.task.is_none(),
                "C01 semaphore base: fresh future is not New/unlinked");
            assert!(!f0.is_terminated(), "C17 semaphore base: fresh future reports terminated");
            let g = sem.state.lock();
            assert!(g.waiters.verif_len_checked(1) == Some(0), "C01 semaphore base: fresh semaphore has a non-empty queue");
        }
    }

    #[cfg(kani)]
    mod proofs {
        use super::*;
        #[kani::proof]
        #[kani::unwind(3)]
        fn waker_identity_c06() { let b = waker_identity::<NoopLock, _>(&mut KaniSrc, P06); kani::cover!(b >= 1, "W semaphore: woken through the latest waker"); }
        #[kani::proof]
        #[kani::unwind(3)]
        fn repoll_panics() {
            let sem = GenericSemaphore::<NoopLock>::new(kani::any(), 2);
            repoll_after_ready(sem.acquire(1));
        }
        #[kani::proof]
        #[kani::unwind(6)]
        #[kani::stub(alloc::alloc::alloc, crate::verif::common::stub_alloc)]
        #[kani::stub(alloc::alloc::dealloc, crate::verif::common::stub_dealloc)]
        #[kani::stub(alloc::alloc::realloc, crate::verif::common::stub_realloc)]
        #[kani::stub(alloc::fmt::format, crate::verif::common::stub_format)]
        fn hist_c18_p2_n5() { let _ = hist::<NoopLock, _>(&mut KaniSrc, 2 | (2 << 2), 5, P18); }
        #[kani::proof]
        #[kani::unwind(5)]
        #[kani::stub(alloc::alloc::alloc, crate::verif::common::stub_alloc)]
        #[kani::stub(alloc::alloc::dealloc, crate::verif::common::stub_dealloc)]
        #[kani::stub(alloc::alloc::realloc, crate::verif::common::stub_realloc)]
        #[kani::stub(alloc::fmt::format, crate::verif::common::stub_format)]
        fn hist_c18_p2_n4() { let _ = hist::<NoopLock, _>(&mut KaniSrc, 2 | (2 << 2), 4, P18); }

        macro_rules! hist_proof {
            ($name:ident, $lock:ty, $n:expr, $p:expr, $cfg:expr, $unw:expr) => {
                #[kani::proof]
                #[kani::unwind($unw)]
                fn $name() {
                    let bits = hist::<$lock, _>(&mut KaniSrc, $cfg, $n, $p);
                    kani::cover!(bits & W_RELEASE_WAKES_HEAD != 0, "W release wakes head");
                    kani::cover!(bits & W_CANCEL_HEAD != 0, "W head cancelled with a waiter behind");
                }
            };
        }
        hist_proof!(hist_c05_x_p0_n3, NoopLock, 3, P05, 2 | (0 << 2), 4);
        hist_proof!(hist_c05_x_p0_n4, NoopLock, 4, P05, 2 | (0 << 2), 5);
        hist_proof!(hist_c05_x_p2_n5, NoopLock, 5, P05, 2 | (2 << 2), 6);
        hist_proof!(hist_c05_x_p0_n5, NoopLock, 5, P05, 2 | (0 << 2), 6);
        hist_proof!(hist_c05_x_p2_n6, NoopLock, 6, P05, 2 | (2 << 2), 7);
        hist_proof!(hist_c05_x_p3_n6, NoopLock, 6, P05, 2 | (3 << 2), 7);
        hist_proof!(hist_c05_x_p3_n7, NoopLock, 7, P05, 2 | (3 << 2), 8);
        hist_proof!(hist_c05_x_p2_n5_check, CheckLock, 5, P05, 2 | (2 << 2), 6);
        hist_proof!(hist_c06_u_p0_n3, NoopLock, 3, P06, 0 | (0 << 2), 4);
        hist_proof!(hist_c06_u_p0_n4, NoopLock, 4, P06, 0 | (0 << 2), 5);
        hist_proof!(hist_c06_u_p2_n5, NoopLock, 5, P06, 0 | (2 << 2), 6);
        hist_proof!(hist_c06_u_p0_n5, NoopLock, 5, P06, 0 | (0 << 2), 6);
        hist_proof!(hist_c06_u_p2_n6, NoopLock, 6, P06, 0 | (2 << 2), 7);
        hist_proof!(hist_c06_u_p3_n6, NoopLock, 6, P06, 0 | (3 << 2), 7);
        hist_proof!(hist_c06_u_p3_n7, NoopLock, 7, P06, 0 | (3 << 2), 8);
        hist_proof!(hist_c06_u_p2_n5_check, CheckLock, 5, P06, 0 | (2 << 2), 6);
        hist_proof!(hist_c06_f_p0_n3, NoopLock, 3, P06, 1 | (0 << 2), 4);
        hist_proof!(hist_c06_f_p0_n4, NoopLock, 4, P06, 1 | (0 << 2), 5);
        hist_proof!(hist_c06_f_p2_n5, NoopLock, 5, P06, 1 | (2 << 2), 6);
        hist_proof!(hist_c06_f_p0_n5, NoopLock, 5, P06, 1 | (0 << 2), 6);
        hist_proof!(hist_c06_f_p2_n6, NoopLock, 6, P06, 1 | (2 << 2), 7);
        hist_proof!(hist_c06_f_p3_n6, NoopLock, 6, P06, 1 | (3 << 2), 7);
        hist_proof!(hist_c06_f_p3_n7, NoopLock, 7, P06, 1 | (3 << 2), 8);
        hist_proof!(hist_c06_f_p2_n5_check, CheckLock, 5, P06, 1 | (2 << 2), 6);
        hist_proof!(hist_c07_f_p0_n3, NoopLock, 3, P07, 1 | (0 << 2), 4);
        hist_proof!(hist_c07_f_p0_n4, NoopLock, 4, P07, 1 | (0 << 2), 5);
        hist_proof!(hist_c07_f_p2_n5, NoopLock, 5, P07, 1 | (2 << 2), 6);
        hist_proof!(hist_c07_f_p0_n5, NoopLock, 5, P07, 1 | (0 << 2), 6);
        hist_proof!(hist_c07_f_p2_n6, NoopLock, 6, P07, 1 | (2 << 2), 7);
        hist_proof!(hist_c07_f_p3_n6, NoopLock, 6, P07, 1 | (3 << 2), 7);
        hist_proof!(hist_c07_f_p3_n7, NoopLock, 7, P07, 1 | (3 << 2), 8);
        hist_proof!(hist_c07_f_p2_n5_check, CheckLock, 5, P07, 1 | (2 << 2), 6);
        hist_proof!(hist_c17_x_p0_n3, NoopLock, 3, P17, 2 | (0 << 2), 4);
        hist_proof!(hist_c17_x_p0_n4, NoopLock, 4, P17, 2 | (0 << 2), 5);
        hist_proof!(hist_c17_x_p2_n4, NoopLock, 4, P17, 2 | (2 << 2), 5);
        hist_proof!(hist_c17_x_p2_n5, NoopLock, 5, P17, 2 | (2 << 2), 6);
        hist_proof!(hist_c17_x_p0_n5, NoopLock, 5, P17, 2 | (0 << 2), 6);
        hist_proof!(hist_c17_x_p2_n6, NoopLock, 6, P17, 2 | (2 << 2), 7);
        hist_proof!(hist_c17_x_p3_n6, NoopLock, 6, P17, 2 | (3 << 2), 7);
        hist_proof!(hist_c17_x_p3_n7, NoopLock, 7, P17, 2 | (3 << 2), 8);
        hist_proof!(hist_c17_x_p2_n5_check, CheckLock, 5, P17, 2 | (2 << 2), 6);
        hist_proof!(hist_c01_x_p0_n3, NoopLock, 3, P01, 2 | (0 << 2), 4);
        hist_proof!(hist_c01_x_p0_n4, NoopLock, 4, P01, 2 | (0 << 2), 5);
        hist_proof!(hist_c01_x_p2_n5, NoopLock, 5, P01, 2 | (2 << 2), 6);
        hist_proof!(hist_c01_x_p0_n5, NoopLock, 5, P01, 2 | (0 << 2), 6);
        hist_proof!(hist_c01_x_p2_n6, NoopLock, 6, P01, 2 | (2 << 2), 7);
        hist_proof!(hist_c01_x_p3_n6, NoopLock, 6, P01, 2 | (3 << 2), 7);
        hist_proof!(hist_c01_x_p3_n7, NoopLock, 7, P01, 2 | (3 << 2), 8);
        hist_proof!(hist_c01_x_p2_n5_check, CheckLock, 5, P01, 2 | (2 << 2), 6);

        hist_proof!(hist_c05_x_p1_n5, NoopLock, 5, P05, 2 | (1 << 2), 6);
        hist_proof!(hist_c06_u_p1_n5, NoopLock, 5, P06, 0 | (1 << 2), 6);
        hist_proof!(hist_c06_f_p1_n5, NoopLock, 5, P06, 1 | (1 << 2), 6);
        hist_proof!(hist_c07_f_p1_n5, NoopLock, 5, P07, 1 | (1 << 2), 6);
        hist_proof!(hist_c06_u_p1s_n5, NoopLock, 5, P06, 0 | (1 << 2) | (1 << 6), 6);
        hist_proof!(hist_c06_u_p2s_n6, NoopLock, 6, P06, 0 | (2 << 2) | (1 << 6), 7);
        hist_proof!(hist_c05_x_p1s_n5, NoopLock, 5, P05, 2 | (1 << 2) | (1 << 6), 6);
        hist_proof!(hist_c01_x_p1s_n5, NoopLock, 5, P01, 2 | (1 << 2) | (1 << 6), 6);
        hist_proof!(hist_c17_x_p1s_n5, NoopLock, 5, P17, 2 | (1 << 2) | (1 << 6), 6);
        hist_proof!(hist_c06_u_k1_n5, NoopLock, 5, P06, 0 | (1 << 4), 6);
        hist_proof!(hist_c06_u_k2_n5, NoopLock, 5, P06, 0 | (2 << 4), 6);
        hist_proof!(hist_c05_x_k1_n5, NoopLock, 5, P05, 2 | (1 << 4), 6);
        macro_rules! step_proof {
            ($name:ident, $lock:ty, $fair:expr, $class:expr, $amax:expr, $p:expr) => {
                #[kani::proof]
                #[kani::unwind(6)]
                fn $name() {
                    let wb = step::run::<$lock>($fair, $class, $amax, $p);
                    // reachability witness of the class under test (4 = all classes)
                    let want: u32 = match $class { 0 => 2, 1 => 1, 2 => 4, 3 => 8, _ => 1 };
                    kani::cover!(wb & want != 0, "W step: class-specific interesting transition reached");
                }
            };
        }
        step_proof!(step_c01, NoopLock, 2, 4, 3, P01);
        step_proof!(step_c01_check, CheckLock, 2, 4, 3, P01);
        step_proof!(step_c05, NoopLock, 2, 4, 3, P05);
        step_proof!(step_c05_wide, NoopLock, 2, 4, 1usize << 62, P05);
        step_proof!(step_c06, NoopLock, 2, 4, 3, P06);
        step_proof!(step_c06_poll, NoopLock, 2, 0, 3, P06);
        step_proof!(step_c06_drop, NoopLock, 2, 1, 3, P06);
        step_proof!(step_c06_release, NoopLock, 2, 2, 3, P06);
        step_proof!(step_c06_try, NoopLock, 2, 3, 3, P06);
        step_proof!(step_c07, NoopLock, 1, 4, 3, P07);
        step_proof!(step_c17, NoopLock, 2, 4, 3, P17);
        #[kani::proof]
        #[kani::unwind(6)]
        fn step_base() {
            step::base::<NoopLock>();
        }

        #[kani::proof]
        #[kani::unwind(5)]
        fn witness_release_p2_n4() {
            let bits = hist::<NoopLock, _>(&mut KaniSrc, 2 | (2 << 2), 4, 0);
            assert!(bits & W_RELEASE_WAKES_HEAD == 0, "WITNESS reached");
        }
        #[kani::proof]
        #[kani::unwind(5)]
        fn witness_cancel_head_p2_n4() {
            let bits = hist::<NoopLock, _>(&mut KaniSrc, 2 | (2 << 2), 4, 0);
            assert!(bits & W_CANCEL_HEAD == 0, "WITNESS reached");
        }
    }
}

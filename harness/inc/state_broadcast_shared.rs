// verification harness include for state_broadcast_shared (see /verif/DESIGN.md)

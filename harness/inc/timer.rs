// Included at the end of /repo/src/timer/timer.rs under cfg(futures_intrusive_verif).
// Timer harnesses: C15 (+ C01, C17 parts). The clock is a harness Clock over a static the script advances.

pub(crate) mod verif_timer {
    use super::*;
    use crate::intrusive_pairing_heap::{verif_validate4};
    use crate::verif::common::*;
    use core::mem::ManuallyDrop;
    use core::sync::atomic::{AtomicU64, Ordering};

    macro_rules! oracle {
        ($p:expr, $mask:expr, $cond:expr, $msg:literal) => {
            if ($p & $mask) != 0 {
                assert!($cond, $msg);
            }
        };
    }

    pub struct HClock(pub AtomicU64);
    impl Clock for HClock {
        fn now(&self) -> u64 { self.0.load(Ordering::Relaxed) }
    }
    pub static CLOCK: HClock = HClock(AtomicU64::new(0));

    pub const K: usize = 3;
    pub const W_TWO_EXPIRE: u32 = 1; // one check_expirations expired >= 2 timers with different deadlines
    pub const W_DUE_AND_NOT_DUE: u32 = 2; // one check expired a timer and left another registered
    pub const W_DROP_REGISTERED: u32 = 4; // a registered timer was dropped while others stay registered
    pub const W_DUP_DEADLINE: u32 = 8; // two registered timers share a deadline

    pub fn hist<M: RawMutex, S: Src>(s: &mut S, _cfg: u32, n: usize, p: u32) -> u32 {
        CLOCK.0.store(0, Ordering::Relaxed);
        let svc = GenericTimerService::<M>::new(&CLOCK);
        let (c0a, c0b, c1a, c1b, c2a, c2b) = (
            WakeCell::new(), WakeCell::new(), WakeCell::new(),
            WakeCell::new(), WakeCell::new(), WakeCell::new(),
        );
        // cfg bit 12 ("wide"): deadlines and clock steps range over the full u64 instead of 0..3 / 1..2
        let wide = (_cfg >> 12) & 1 == 1;
        macro_rules! pick_dl { () => { if wide { s.u64() } else { s.below(4) as u64 } } }
        let mut dl = [pick_dl!(), pick_dl!(), pick_dl!()];
        let mut f0 = ManuallyDrop::new(LocalTimer::deadline(&svc, dl[0]));
        let mut f1 = ManuallyDrop::new(LocalTimer::deadline(&svc, dl[1]));
        let mut f2 = ManuallyDrop::new(LocalTimer::deadline(&svc, dl[2]));
        if (p & P18) != 0 { arm_alloc(); }
        let mut now: u64 = 0;
        let mut alive = [true; K];
        let mut reg = [false; K]; // registered, not yet expired
        let mut expired = [false; K]; // expired by a check, not yet observed by a poll
        let mut dead = [false; K]; // slot's future was dropped and not re-created yet
        let mut dsn = [[0u32; 2]; K]; // wake counts of its two wakers just before the drop
        let mut done = [false; K];
        let mut lw = [0u8; K];
        let mut snap = [0u32; K];
        let mut ever = [false; K];
        let mut fresh = [true; K];
        let mut bits = 0u32;
        // The script has a phase structure so that the expensive operation (check_expirations: a loop of heap removals)
        // appears at two places of the formula only:  n1 cheap operations, [check], n2 cheap operations, [check]
        // (cheap = poll A|B x3, drop x3, advance clock; each check is optional, chosen by the script).
        let n1 = (_cfg & 15) as usize;
        let n2 = ((_cfg >> 4) & 15) as usize;
        let kslots = if (_cfg >> 8) & 3 == 0 { K } else { ((_cfg >> 8) & 3) as usize };
        // alphabet partitions (constant, so the disabled code is dropped by symbolic execution): heap removal is by far the
        // most expensive code for the back end, so histories either drop futures or run check_expirations, not both
        let nodrop = (_cfg >> 10) & 1 == 1;
        let nocheck = (_cfg >> 11) & 1 == 1;
        let _ = n;
        macro_rules! post_op { () => {
            oracle!(p, P18, alloc_events() == 0, "C18 timer: an operation allocated or freed heap memory");
            // next_expiration() = smallest deadline among registered, not yet expired, not dropped futures
            let mut mn: Option<u64> = None;
            let mut i = 0;
            while i < K {
                if reg[i] && mn.map_or(true, |m| dl[i] < m) { mn = Some(dl[i]); }
                i += 1;
            }
            oracle!(p, P15, svc.next_expiration() == mn, "C15 timer: next_expiration() differs from the smallest registered deadline");
            oracle!(p, P01, svc.next_expiration() == mn, "C01 timer: the timer queue does not hold exactly the live registered futures (next_expiration() reports a deadline nobody waits for, or misses one)");
            if (p & P01) != 0 {
                // C01: a dropped future is in no wait queue any more, so its task is never woken again
                if dead[0] { assert!(c0a.n() == dsn[0][0] && c0b.n() == dsn[0][1], "C01 timer: the task of a dropped future was woken (dangling waiter)"); }
                if dead[1] { assert!(c1a.n() == dsn[1][0] && c1b.n() == dsn[1][1], "C01 timer: the task of a dropped future was woken (dangling waiter)"); }
                if dead[2] { assert!(c2a.n() == dsn[2][0] && c2b.n() == dsn[2][1], "C01 timer: the task of a dropped future was woken (dangling waiter)"); }
            }
            if (p & P17) != 0 {
                if alive[0] { assert!(f0.is_terminated() == done[0], "C17 timer: is_terminated() differs from 'completed'"); }
                if alive[1] { assert!(f1.is_terminated() == done[1], "C17 timer: is_terminated() differs from 'completed'"); }
                if alive[2] { assert!(f2.is_terminated() == done[2], "C17 timer: is_terminated() differs from 'completed'"); }
            }
        } }
        macro_rules! cheap_op { () => {{
            let op = s.below(10);
            if op < 6 {
                let i = (op / 2) as usize;
                let w = op % 2;
                s.assume(i < kslots && !done[i]);
                s.assume(i == 0 || ever[i - 1]);
                s.assume(!fresh[i] || w == 0);
                ever[i] = true;
                let f = match i { 0 => &mut f0, 1 => &mut f1, _ => &mut f2 };
                if !alive[i] {
                    dl[i] = pick_dl!();
                    *f = ManuallyDrop::new(LocalTimer::deadline(&svc, dl[i]));
                    alive[i] = true;
                    dead[i] = false;
                    fresh[i] = true;
                    oracle!(p, P17, !f.is_terminated(), "C17 timer: fresh timer future reports terminated");
                }
                fresh[i] = false;
                let cell = match (i, w) {
                    (0, 0) => &c0a, (0, _) => &c0b,
                    (1, 0) => &c1a, (1, _) => &c1b,
                    (_, 0) => &c2a, (_, _) => &c2b,
                };
                let waker = ManuallyDrop::new(mk_waker(cell));
                let mut cx = Context::from_waker(&waker);
                let r = unsafe { Pin::new_unchecked(&mut **f) }.poll(&mut cx);
                // model: first poll completes iff the clock reached the deadline; a registered future completes
                // only after a check_expirations() that observed clock >= deadline
                let expect_ready = if reg[i] { false } else if expired[i] { true } else { now >= dl[i] };
                match r {
                    Poll::Ready(()) => {
                        oracle!(p, P15, expect_ready, "C15 timer: a timer future completed before its deadline was reached / observed by check_expirations");
                        oracle!(p, P15, now >= dl[i], "C15 timer: a timer future completed while the clock is below its deadline");
                        reg[i] = false;
                        expired[i] = false;
                        done[i] = true;
                    }
                    Poll::Pending => {
                        oracle!(p, P15, !expect_ready, "C15 timer: a due timer future did not complete");
                        if !reg[i] {
                            let mut j = 0;
                            while j < K { if j != i && reg[j] && dl[j] == dl[i] { bits |= W_DUP_DEADLINE; } j += 1; }
                        }
                        reg[i] = true;
                        lw[i] = w;
                        snap[i] = cell.n();
                    }
                }
            } else if !nodrop && op >= 6 && op < 9 {
                let i = (op - 6) as usize;
                s.assume(alive[i] && (reg[i] || expired[i] || done[i]));
                let f = match i { 0 => &mut f0, 1 => &mut f1, _ => &mut f2 };
                if reg[i] && (reg[0] as u8 + reg[1] as u8 + reg[2] as u8) >= 2 { bits |= W_DROP_REGISTERED; }
                dsn[i] = match i { 0 => [c0a.n(), c0b.n()], 1 => [c1a.n(), c1b.n()], _ => [c2a.n(), c2b.n()] };
                dead[i] = true;
                unsafe { ManuallyDrop::drop(f) };
                alive[i] = false;
                reg[i] = false;
                expired[i] = false;
                done[i] = false;
            } else if op == 9 {
                let d = if wide { s.u64() } else { 1 + s.below(2) as u64 };
                now = now.saturating_add(d);
                CLOCK.0.store(now, Ordering::Relaxed);
            } else {
                s.assume(false);
            }
            post_op!();
        }} }
        macro_rules! check_op { () => {{
            if !nocheck && s.flag() {
                let before = [c0a.n(), c0b.n(), c1a.n(), c1b.n(), c2a.n(), c2b.n()];
                svc.check_expirations();
                let after = [c0a.n(), c0b.n(), c1a.n(), c1b.n(), c2a.n(), c2b.n()];
                let seqs = [c0a.last_seq.get(), c0b.last_seq.get(), c1a.last_seq.get(), c1b.last_seq.get(), c2a.last_seq.get(), c2b.last_seq.get()];
                let mut nexp = 0u8;
                let mut nleft = 0u8;
                let mut i = 0;
                while i < K {
                    let li = 2 * i + lw[i] as usize;
                    if reg[i] && dl[i] <= now {
                        oracle!(p, P15, after[li] == before[li] + 1, "C15 timer: check_expirations did not wake a due timer exactly once through its latest waker");
                        let oi = 2 * i + (1 - lw[i]) as usize;
                        oracle!(p, P15, after[oi] == before[oi], "C15 timer: check_expirations woke a stale waker");
                        nexp += 1;
                    } else {
                        oracle!(p, P15, after[2 * i] == before[2 * i] && after[2 * i + 1] == before[2 * i + 1],
                            "C15 timer: check_expirations woke a timer that is not due (or not registered)");
                        if reg[i] { nleft += 1; }
                    }
                    i += 1;
                }
                // wake order: non-decreasing deadline
                i = 0;
                while i < K {
                    let mut j = 0;
                    while j < K {
                        if i != j && reg[i] && reg[j] && dl[i] <= now && dl[j] <= now && dl[i] < dl[j] {
                            oracle!(p, P15, seqs[2 * i + lw[i] as usize] < seqs[2 * j + lw[j] as usize],
                                "C15 timer: due timers were not woken in deadline order");
                            bits |= W_TWO_EXPIRE;
                        }
                        j += 1;
                    }
                    i += 1;
                }
                if nexp >= 1 && nleft >= 1 { bits |= W_DUE_AND_NOT_DUE; }
                i = 0;
                while i < K {
                    if reg[i] && dl[i] <= now { reg[i] = false; expired[i] = true; }
                    i += 1;
                }
                post_op!();
            }
        }} }
        let mut step = 0;
        while step < n1 && !s.exhausted() { step += 1; cheap_op!(); }
        if !s.exhausted() { check_op!(); }
        step = 0;
        while step < n2 && !s.exhausted() { step += 1; cheap_op!(); }
        if !s.exhausted() { check_op!(); }
        s.reached(bits);
        bits
    }

    /// The thread-safe `Timer` facade (TimerFuture over a service whose lock is Sync), one timer, straight line:
    /// register, optionally re-poll with a waker that differs only in its vtable, advance the clock past the deadline,
    /// check_expirations() - optionally while "another thread holds the lock" (CONTENDED: a try_lock would fail once;
    /// lock() just waits) - then observe is_terminated() BEFORE and after the re-poll.
    /// C15: the due timer is woken exactly once through its latest waker and is no longer reported by next_expiration();
    /// C17: is_terminated() becomes true exactly when Ready was yielded.
    pub fn facade_scenario<S: Src>(s: &mut S, p: u32) -> u32 {
        CLOCK.0.store(0, Ordering::Relaxed);
        let svc = GenericTimerService::<CheckLock>::new(&CLOCK);
        let dl = 1 + s.below(3) as u64;
        let c = DualCell::new();
        let mut f = ManuallyDrop::new(Timer::deadline(&svc, dl));
        if (p & P17) != 0 { assert!(!f.is_terminated(), "C17 timer facade: a fresh TimerFuture reports terminated"); }
        let wa = ManuallyDrop::new(mk_waker_a(&c));
        let wb = ManuallyDrop::new(mk_waker_b(&c));
        let r = { let mut cx = Context::from_waker(&wa); unsafe { Pin::new_unchecked(&mut *f) }.poll(&mut cx) };
        oracle!(p, P15, r.is_pending(), "C15 timer facade: completed while the clock is below the deadline");
        let second = s.flag();
        if second {
            let r = { let mut cx = Context::from_waker(&wb); unsafe { Pin::new_unchecked(&mut *f) }.poll(&mut cx) };
            oracle!(p, P15, r.is_pending(), "C15 timer facade: completed while the clock is below the deadline");
        }
        oracle!(p, P15, svc.next_expiration() == Some(dl), "C15 timer facade: next_expiration() differs from the registered deadline");
        CLOCK.0.store(dl + s.below(2) as u64, Ordering::Relaxed);
        if s.flag() { CONTENDED.store(1, Ordering::Relaxed); }
        svc.check_expirations();
        CONTENDED.store(0, Ordering::Relaxed);
        let (latest, stale) = if second { (c.b.get(), c.a.get()) } else { (c.a.get(), c.b.get()) };
        oracle!(p, P15, latest == 1 && stale == 0, "C15 timer facade: check_expirations() did not wake the due timer exactly once through its latest waker");
        oracle!(p, P15, svc.next_expiration().is_none(), "C15 timer facade: next_expiration() still reports an expired timer");
        if (p & P17) != 0 { assert!(!f.is_terminated(), "C17 timer facade: is_terminated() is true although Ready has not been yielded yet"); }
        let r = { let mut cx = Context::from_waker(&wb); unsafe { Pin::new_unchecked(&mut *f) }.poll(&mut cx) };
        oracle!(p, P15, r.is_ready(), "C15 timer facade: a due timer did not complete after check_expirations()");
        if (p & P17) != 0 { assert!(f.is_terminated() == r.is_ready(), "C17 timer facade: is_terminated() differs from 'completed'"); }
        unsafe { ManuallyDrop::drop(&mut f) };
        s.reached(latest);
        latest
    }

    /// A timer that was expired by check_expirations() and is then DROPPED without being polled again (a timeout that lost
    /// a select! race), while another timer stays registered. Two timers, straight line. C15: next_expiration() afterwards is
    /// the other deadline and that timer still expires; C01: the heap holds exactly the live registered futures, no panic.
    pub fn expired_drop_scenario<S: Src>(s: &mut S, p: u32) -> u32 {
        CLOCK.0.store(0, Ordering::Relaxed);
        let svc = GenericTimerService::<NoopLock>::new(&CLOCK);
        let (c0, c1) = (WakeCell::new(), WakeCell::new());
        let d0 = 1 + s.below(2) as u64;          // 1..2
        let d1 = d0 + 1 + s.below(2) as u64;     // later than d0
        let mut f0 = ManuallyDrop::new(LocalTimer::deadline(&svc, d0));
        let mut f1 = ManuallyDrop::new(LocalTimer::deadline(&svc, d1));
        let w0 = ManuallyDrop::new(mk_waker(&c0));
        let w1 = ManuallyDrop::new(mk_waker(&c1));
        let order = s.flag(); // registration order
        if order {
            let _ = { let mut cx = Context::from_waker(&w1); unsafe { Pin::new_unchecked(&mut *f1) }.poll(&mut cx) };
            let _ = { let mut cx = Context::from_waker(&w0); unsafe { Pin::new_unchecked(&mut *f0) }.poll(&mut cx) };
        } else {
            let _ = { let mut cx = Context::from_waker(&w0); unsafe { Pin::new_unchecked(&mut *f0) }.poll(&mut cx) };
            let _ = { let mut cx = Context::from_waker(&w1); unsafe { Pin::new_unchecked(&mut *f1) }.poll(&mut cx) };
        }
        CLOCK.0.store(d0, Ordering::Relaxed);
        svc.check_expirations();
        oracle!(p, P15, c0.n() == 1 && c1.n() == 0, "C15 timer: check_expirations() did not wake exactly the due timer");
        // the expired future is dropped unpolled
        unsafe { ManuallyDrop::drop(&mut f0) };
        oracle!(p, P15, svc.next_expiration() == Some(d1), "C15 timer: next_expiration() differs from the remaining registered deadline after an expired, unpolled future was dropped");
        oracle!(p, P01, svc.next_expiration() == Some(d1), "C01 timer: the timer queue lost a live registered future when an expired, unpolled future was dropped");
        // (a second check_expirations() for the remaining timer makes the query 5x more expensive; that the remaining timer
        // is still in the heap is what next_expiration() just showed)
        unsafe { ManuallyDrop::drop(&mut f1) };
        s.reached(order as u32);
        order as u32
    }

    #[no_mangle]
    pub fn fi_verif_replay_timer(name: &str, cfg: u32, p: u32, s: &mut ScriptSrc<'_>) -> bool {
        match name {
            "timer_expired_drop" => { expired_drop_scenario::<_>(s, p); }
            "timer_facade" => { facade_scenario::<_>(s, p); }
            "timer_hist_noop" => { hist::<NoopLock, _>(s, cfg, 64, p); }
            "timer_hist_check" => { hist::<CheckLock, _>(s, cfg, 64, p); }
            "timer_delay" => { delay_check::<_>(s, p); }
            _ => return false,
        }
        true
    }

    /// delay(d) means deadline(now + d), saturating: full-range Duration and clock, independent reference.
    pub fn delay_check<S: Src>(s: &mut S, p: u32) -> u32 {
        let now = s.u64();
        let secs = s.u64();
        let nanos = (s.u64() % 1_000_000_000) as u32;
        CLOCK.0.store(now, Ordering::Relaxed);
        let svc = GenericTimerService::<NoopLock>::new(&CLOCK);
        let d = Duration::new(secs, nanos);
        let mut f = ManuallyDrop::new(LocalTimer::delay(&svc, d));
        // reference: milliseconds = secs*1000 + nanos/1e6, computed with checked steps, saturating at u64::MAX
        let ms: u64 = match secs.checked_mul(1000) {
            Some(x) => match x.checked_add((nanos / 1_000_000) as u64) { Some(y) => y, None => u64::MAX },
            None => u64::MAX,
        };
        let want = match now.checked_add(ms) { Some(x) => x, None => u64::MAX };
        oracle!(p, P15, f.wait_node.expiry == want, "C15 timer: delay(d) is not deadline(now + d) saturating");
        // observed through the public API as well: a pending delay shows up in next_expiration()
        let cell = WakeCell::new();
        let waker = ManuallyDrop::new(mk_waker(&cell));
        let mut cx = Context::from_waker(&waker);
        match unsafe { Pin::new_unchecked(&mut *f) }.poll(&mut cx) {
            Poll::Ready(()) => { oracle!(p, P15, want <= now, "C15 timer: delay completed at once although now + d is in the future"); }
            Poll::Pending => {
                oracle!(p, P15, want > now && svc.next_expiration() == Some(want), "C15 timer: a pending delay is not registered at now + d");
                unsafe { ManuallyDrop::drop(&mut f) };
            }
        }
        0
    }

    // =====================================================================
    // E-STEP: ANY heap-ordered tree over the registered subset of 4 timer futures, symbolic deadlines and
    // clock (full u64), one operation. Inv: heap members = {Registered}; Registered => stored waker = latest.
    // =====================================================================
    #[cfg(kani)]
    pub mod step {
        use super::*;
        use crate::intrusive_pairing_heap::verif_build4;
        type Node = HeapNode<TimerQueueEntry>;
        // 0 Unregistered(live), 1 Registered, 2 Expired (not observed), 3 Terminated
        fn any_st() -> u8 { let x: u8 = kani::any(); kani::assume(x < 4); x }
        fn obs(f: &LocalTimerFuture<'_>) -> u8 {
            match (&f.wait_node.state, f.timer.is_some()) {
                (_, false) => 3,
                (PollState::Unregistered, true) => 0,
                (PollState::Registered, true) => 1,
                (PollState::Expired, true) => 2,
            }
        }
        /// class: 0 poll, 1 drop, 2 check_expirations (+ next_expiration), 3 any
        pub fn run<M: RawMutex>(class: u8, kmax: usize, p: u32) {
            let now: u64 = kani::any();
            CLOCK.0.store(now, Ordering::Relaxed);
            let svc = GenericTimerService::<M>::new(&CLOCK);
            let (c0a, c0b, c1a, c1b, c2a, c2b, c3a, c3b) = (
                WakeCell::new(), WakeCell::new(), WakeCell::new(), WakeCell::new(),
                WakeCell::new(), WakeCell::new(), WakeCell::new(), WakeCell::new(),
            );
            let dl: [u64; 4] = [kani::any(), kani::any(), kani::any(), kani::any()];
            let mut f0 = ManuallyDrop::new(LocalTimer::deadline(&svc, dl[0]));
            let mut f1 = ManuallyDrop::new(LocalTimer::deadline(&svc, dl[1]));
            let mut f2 = ManuallyDrop::new(LocalTimer::deadline(&svc, dl[2]));
            let mut f3 = ManuallyDrop::new(LocalTimer::deadline(&svc, dl[3]));
            let st = [any_st(), any_st(), any_st(), any_st()];
            if kmax < 4 { kani::assume(st[3] == 3); } // partition: only kmax futures take part
            if kmax < 3 { kani::assume(st[2] == 3); }
            let lw: [bool; 4] = [kani::any(), kani::any(), kani::any(), kani::any()];
            macro_rules! setup {
                ($f:ident, $i:expr, $ca:expr, $cb:expr) => {
                    match st[$i] {
                        0 => {}
                        1 => { $f.wait_node.state = PollState::Registered; $f.wait_node.task = Some(if lw[$i] { mk_waker(&$ca) } else { mk_waker(&$cb) }); }
                        2 => { $f.wait_node.state = PollState::Expired; }
                        _ => { $f.wait_node.state = PollState::Expired; $f.timer = None; }
                    }
                };
            }
            setup!(f0, 0, c0a, c0b);
            setup!(f1, 1, c1a, c1b);
            setup!(f2, 2, c2a, c2b);
            setup!(f3, 3, c3a, c3b);
            let tab: [*mut Node; 4] = [&mut f0.wait_node, &mut f1.wait_node, &mut f2.wait_node, &mut f3.wait_node];
            let member = [st[0] == 1, st[1] == 1, st[2] == 1, st[3] == 1];
            unsafe {
                let mut g = svc.inner.lock();
                verif_build4(&mut g.waiters, &tab, &member);
            }
            let mut alive = [true; 4];
            let mut polled = 4usize;
            let mut polled_w = false;
            let t: usize = kani::any();
            kani::assume(t < kmax);
            let cls: u8 = if class == 3 { kani::any() } else { class };
            kani::assume(cls < 3);
            let cells_a = [&c0a, &c1a, &c2a, &c3a];
            let cells_b = [&c0b, &c1b, &c2b, &c3b];
            if cls == 0 {
                kani::assume(st[t] != 3);
                let f = match t { 0 => &mut f0, 1 => &mut f1, 2 => &mut f2, _ => &mut f3 };
                let wa: bool = kani::any();
                let cell = if wa { cells_a[t] } else { cells_b[t] };
                let w = ManuallyDrop::new(mk_waker(cell));
                let mut cx = Context::from_waker(&w);
                let res = unsafe { Pin::new_unchecked(&mut **f) }.poll(&mut cx);
                polled = t;
                polled_w = wa;
                let expect_ready = match st[t] { 0 => now >= dl[t], 1 => false, _ => true };
                oracle!(p, P15, res.is_ready() == expect_ready, "C15 timer step: poll outcome differs from 'deadline reached at the first poll, or expired by a check'");
            } else if cls == 1 {
                let f = match t { 0 => &mut f0, 1 => &mut f1, 2 => &mut f2, _ => &mut f3 };
                unsafe { ManuallyDrop::drop(f) };
                alive[t] = false;
            } else {
                svc.check_expirations();
            }
            let t2 = [obs(&f0), obs(&f1), obs(&f2), obs(&f3)];
            let mut i = 0;
            let mut mn: Option<u64> = None;
            while i < 4 {
                if alive[i] {
                    if cls == 2 {
                        let due = st[i] == 1 && dl[i] <= now;
                        let c = if lw[i] { cells_a[i] } else { cells_b[i] };
                        let o = if lw[i] { cells_b[i] } else { cells_a[i] };
                        if due {
                            oracle!(p, P15, t2[i] == 2 && c.n() == 1 && o.n() == 0, "C15 timer step: a due timer was not expired and woken once through its latest waker");
                        } else {
                            oracle!(p, P15, t2[i] == st[i] && c.n() == 0 && o.n() == 0, "C15 timer step: check_expirations touched a timer that is not due");
                        }
                    }
                    if t2[i] == 1 && mn.map_or(true, |m| dl[i] < m) { mn = Some(dl[i]); }
                }
                i += 1;
            }
            if cls == 2 {
                // deadline order of the wake-ups
                i = 0;
                while i < 4 {
                    let mut j = 0;
                    while j < 4 {
                        if i != j && st[i] == 1 && st[j] == 1 && dl[i] <= now && dl[j] <= now && dl[i] < dl[j] {
                            let si = if lw[i] { cells_a[i] } else { cells_b[i] }.last_seq.get();
                            let sj = if lw[j] { cells_a[j] } else { cells_b[j] }.last_seq.get();
                            oracle!(p, P15, si < sj, "C15 timer step: due timers were not woken in deadline order");
                        }
                        j += 1;
                    }
                    i += 1;
                }
            }
            oracle!(p, P15, svc.next_expiration() == mn, "C15 timer step: next_expiration() differs from the smallest registered deadline");
            if (p & (P01 | P15)) != 0 {
                let g = svc.inner.lock();
                let member2 = [alive[0] && t2[0] == 1, alive[1] && t2[1] == 1, alive[2] && t2[2] == 1, alive[3] && t2[3] == 1];
                let ok = unsafe { verif_validate4(&g.waiters, &tab, &member2) };
                if (p & P01) != 0 { assert!(ok, "C01 timer step: the timer heap does not contain exactly the live registered futures, consistently linked"); }
                if (p & P15) != 0 { assert!(ok, "C15 timer step: the timer heap does not contain exactly the live registered futures, consistently linked"); }
                if (p & P01) != 0 {
                    i = 0;
                    while i < 4 {
                        if member2[i] {
                            let nd = unsafe { &*tab[i] };
                            let lwc: &WakeCell = if i == polled { if polled_w { cells_a[i] } else { cells_b[i] } }
                                                 else if lw[i] { cells_a[i] } else { cells_b[i] };
                            let okw = match &nd.task { Some(w) => w.will_wake(&ManuallyDrop::new(mk_waker(lwc))), None => false };
                            assert!(okw, "C01 timer step: registered timer does not store the waker of its latest poll");
                        }
                        i += 1;
                    }
                }
            }
            if (p & P17) != 0 {
                if alive[0] { assert!(f0.is_terminated() == (t2[0] == 3), "C17 timer step: is_terminated() differs from 'completed'"); }
                if alive[1] { assert!(f1.is_terminated() == (t2[1] == 3), "C17 timer step: is_terminated() differs from 'completed'"); }
                if alive[2] { assert!(f2.is_terminated() == (t2[2] == 3), "C17 timer step: is_terminated() differs from 'completed'"); }
                if alive[3] { assert!(f3.is_terminated() == (t2[3] == 3), "C17 timer step: is_terminated() differs from 'completed'"); }
            }
        }
    }

    #[cfg(kani)]
    mod proofs {
        use super::*;

        /// E-STEP for check_expirations over K=2 registered-or-not timer futures, built without loops (heap removal inside a
        /// loop is the most expensive code for the back end; this is the cheapest harness that still covers: due / not due,
        /// equal deadlines, both heap shapes, wake order, latest waker, next_expiration afterwards).
        fn check2(p: u32) {
            let now: u64 = kani::any();
            CLOCK.0.store(now, Ordering::Relaxed);
            let svc = GenericTimerService::<NoopLock>::new(&CLOCK);
            let (c0a, c0b, c1a, c1b) = (WakeCell::new(), WakeCell::new(), WakeCell::new(), WakeCell::new());
            let d0: u64 = kani::any();
            let d1: u64 = kani::any();
            let mut f0 = ManuallyDrop::new(LocalTimer::deadline(&svc, d0));
            let mut f1 = ManuallyDrop::new(LocalTimer::deadline(&svc, d1));
            let r0: bool = kani::any();
            let r1: bool = kani::any();
            let w0: bool = kani::any();
            let w1: bool = kani::any();
            if r0 { f0.wait_node.state = PollState::Registered; f0.wait_node.task = Some(if w0 { mk_waker(&c0a) } else { mk_waker(&c0b) }); }
            if r1 { f1.wait_node.state = PollState::Registered; f1.wait_node.task = Some(if w1 { mk_waker(&c1a) } else { mk_waker(&c1b) }); }
            {
                let mut g = svc.inner.lock();
                // the real insert builds the two-node heap (both insertion orders => both shapes for equal deadlines)
                let first0: bool = kani::any();
                unsafe {
                    if first0 {
                        if r0 { g.waiters.insert(&mut f0.wait_node); }
                        if r1 { g.waiters.insert(&mut f1.wait_node); }
                    } else {
                        if r1 { g.waiters.insert(&mut f1.wait_node); }
                        if r0 { g.waiters.insert(&mut f0.wait_node); }
                    }
                }
            }
            svc.check_expirations();
            let due0 = r0 && d0 <= now;
            let due1 = r1 && d1 <= now;
            let (n0, o0) = if w0 { (c0a.n(), c0b.n()) } else { (c0b.n(), c0a.n()) };
            let (n1, o1) = if w1 { (c1a.n(), c1b.n()) } else { (c1b.n(), c1a.n()) };
            if (p & P15) != 0 {
                assert!(n0 == due0 as u32 && o0 == 0, "C15 timer check2: a due timer was not woken exactly once through its latest waker, or a timer that is not due was woken");
                assert!(n1 == due1 as u32 && o1 == 0, "C15 timer check2: a due timer was not woken exactly once through its latest waker, or a timer that is not due was woken");
                assert!((f0.wait_node.state == PollState::Expired) == due0 && (f1.wait_node.state == PollState::Expired) == due1,
                    "C15 timer check2: exactly the due timers must be marked expired");
                if due0 && due1 && d0 < d1 {
                    let s0 = if w0 { c0a.last_seq.get() } else { c0b.last_seq.get() };
                    let s1 = if w1 { c1a.last_seq.get() } else { c1b.last_seq.get() };
                    assert!(s0 < s1, "C15 timer check2: due timers were not woken in deadline order");
                }
                let left0 = r0 && !due0;
                let left1 = r1 && !due1;
                let mn = if left0 && left1 { Some(if d0 < d1 { d0 } else { d1 }) } else if left0 { Some(d0) } else if left1 { Some(d1) } else { None };
                assert!(svc.next_expiration() == mn, "C15 timer check2: next_expiration() differs from the smallest registered deadline");
            }
            if (p & P01) != 0 {
                let g = svc.inner.lock();
                assert!(g.waiters.verif_contains(&f0.wait_node) == (r0 && !due0), "C01 timer check2: the heap does not contain exactly the registered, not yet expired timers");
                assert!(g.waiters.verif_contains(&f1.wait_node) == (r1 && !due1), "C01 timer check2: the heap does not contain exactly the registered, not yet expired timers");
            }
            kani::cover!(due0 && due1 && d0 < d1, "W check2: two timers expire in order");
            kani::cover!(due0 && r1 && !due1, "W check2: one expires, one stays");
        }
        #[kani::proof]
        #[kani::unwind(4)]
        fn step_c15_check2() { check2(P15) }
        #[kani::proof]
        #[kani::unwind(4)]
        fn step_c01_check2() { check2(P01) }

        #[kani::proof]
        #[kani::unwind(3)]
        fn repoll_panics() {
            CLOCK.0.store(0, Ordering::Relaxed);
            let svc = GenericTimerService::<NoopLock>::new(&CLOCK);
            repoll_after_ready(LocalTimer::deadline(&svc, 0));
        }
        #[kani::proof]
        #[kani::unwind(4)]
        fn expired_drop_c15() { let _ = expired_drop_scenario(&mut KaniSrc, P15); }
        #[kani::proof]
        #[kani::unwind(4)]
        fn expired_drop_c01() { let _ = expired_drop_scenario(&mut KaniSrc, P01); }
        #[kani::proof]
        #[kani::unwind(3)]
        fn facade_c15() { let n = facade_scenario(&mut KaniSrc, P15); kani::cover!(n == 1, "W timer facade: woken once"); }
        #[kani::proof]
        #[kani::unwind(3)]
        fn facade_c17() { let _ = facade_scenario(&mut KaniSrc, P17); }
        #[kani::proof]
        #[kani::unwind(3)]
        fn repoll_panics_send_facade() {
            CLOCK.0.store(0, Ordering::Relaxed);
            let svc = GenericTimerService::<CheckLock>::new(&CLOCK);
            repoll_after_ready(Timer::deadline(&svc, 0));
        }
        #[kani::proof]
        #[kani::unwind(6)]
        #[kani::stub(alloc::alloc::alloc, crate::verif::common::stub_alloc)]
        #[kani::stub(alloc::alloc::dealloc, crate::verif::common::stub_dealloc)]
        #[kani::stub(alloc::alloc::realloc, crate::verif::common::stub_realloc)]
        #[kani::stub(alloc::fmt::format, crate::verif::common::stub_format)]
        fn hist_c18_stub_k3_drop_a4() { let _ = hist::<NoopLock, _>(&mut KaniSrc, 4 | (1 << 11), 64, P18); }
        macro_rules! hist_proof {
            ($name:ident, $lock:ty, $n:expr, $p:expr, $unw:expr) => {
                #[kani::proof]
                #[kani::unwind($unw)]
                fn $name() {
                    // $n = n1 | n2 << 4 (phase lengths)
                    let bits = hist::<$lock, _>(&mut KaniSrc, $n, 64, $p);
                    kani::cover!(bits & (W_DUE_AND_NOT_DUE | W_DROP_REGISTERED | W_DUP_DEADLINE) != 0, "W timer hist: an interesting situation is reachable");
                }
            };
        }

        hist_proof!(hist_c15_k2_chk_a3b1, NoopLock, 3 | (1 << 4) | (2 << 8) | (1 << 10), P15, 5);
        hist_proof!(hist_c15_k3_chk_a4b1, NoopLock, 4 | (1 << 4) | (1 << 10), P15, 6);
        hist_proof!(hist_c15_k3_drop_a4, NoopLock, 4 | (1 << 11), P15, 6);
        hist_proof!(hist_c15_k3_drop_a5, NoopLock, 5 | (1 << 11), P15, 7);
        hist_proof!(hist_c15_k3_all_a3b1, NoopLock, 3 | (1 << 4), P15, 5);
        // "wide": 2 slots, deadlines and clock steps over the full u64, {poll, drop, advance}
        hist_proof!(hist_c15_k2_wide_a3, NoopLock, 3 | (2 << 8) | (1 << 11) | (1 << 12), P15, 9);
        hist_proof!(hist_c15_k2_wide_a4, NoopLock, 4 | (2 << 8) | (1 << 11) | (1 << 12), P15, 9);
        hist_proof!(hist_c01_k2_wide_a3, NoopLock, 3 | (2 << 8) | (1 << 11) | (1 << 12), P01, 9);
        hist_proof!(hist_c17_k2_chk_a3b1, NoopLock, 3 | (1 << 4) | (2 << 8) | (1 << 10), P17, 5);
        hist_proof!(hist_c17_k3_chk_a4b1, NoopLock, 4 | (1 << 4) | (1 << 10), P17, 6);
        hist_proof!(hist_c17_k3_drop_a4, NoopLock, 4 | (1 << 11), P17, 6);
        hist_proof!(hist_c17_k3_drop_a5, NoopLock, 5 | (1 << 11), P17, 7);
        hist_proof!(hist_c17_k3_all_a3b1, NoopLock, 3 | (1 << 4), P17, 5);
        hist_proof!(hist_c01_k2_chk_a3b1, NoopLock, 3 | (1 << 4) | (2 << 8) | (1 << 10), P01, 5);
        hist_proof!(hist_c01_k3_chk_a4b1, NoopLock, 4 | (1 << 4) | (1 << 10), P01, 6);
        hist_proof!(hist_c01_k3_drop_a4, NoopLock, 4 | (1 << 11), P01, 6);
        hist_proof!(hist_c01_k3_drop_a5, NoopLock, 5 | (1 << 11), P01, 7);
        hist_proof!(hist_c01_k3_all_a3b1, NoopLock, 3 | (1 << 4), P01, 5);
        hist_proof!(hist_c18_k2_chk_a3b1, NoopLock, 3 | (1 << 4) | (2 << 8) | (1 << 10), P18, 5);
        hist_proof!(hist_c18_k3_chk_a4b1, NoopLock, 4 | (1 << 4) | (1 << 10), P18, 6);
        hist_proof!(hist_c18_k3_drop_a4, NoopLock, 4 | (1 << 11), P18, 6);
        hist_proof!(hist_c18_k3_drop_a5, NoopLock, 5 | (1 << 11), P18, 7);
        hist_proof!(hist_c18_k3_all_a3b1, NoopLock, 3 | (1 << 4), P18, 5);
        #[kani::proof]
        #[kani::unwind(10)]
        fn delay_full_range() { delay_check(&mut KaniSrc, P15); }

        macro_rules! step_proof {
            ($name:ident, $lock:ty, $class:expr, $k:expr, $p:expr) => {
                #[kani::proof]
                #[kani::unwind(6)]
                fn $name() { step::run::<$lock>($class, $k, $p) }
            };
        }
        step_proof!(step_c15_poll, NoopLock, 0, 4, P15);
        step_proof!(step_c15_drop, NoopLock, 1, 4, P15);
        step_proof!(step_c15_check_k3, NoopLock, 2, 3, P15);
        #[kani::proof]
        #[kani::unwind(6)]
        fn step_c15_check_k2() { step::run::<NoopLock>(2, 2, P15) }
        #[kani::proof]
        #[kani::unwind(6)]
        fn step_c01_check_k2() { step::run::<NoopLock>(2, 2, P01) }
        step_proof!(step_c15_check, NoopLock, 2, 4, P15);
        step_proof!(step_c01_poll, NoopLock, 0, 4, P01);
        step_proof!(step_c01_drop, NoopLock, 1, 4, P01);
        step_proof!(step_c01_check_k3, NoopLock, 2, 3, P01);
        step_proof!(step_c01_check, NoopLock, 2, 4, P01);
        step_proof!(step_c17_poll, NoopLock, 0, 4, P17);
        step_proof!(step_c17_drop, NoopLock, 1, 3, P17);

        #[kani::proof]
        #[kani::unwind(6)]
        fn witness_drop_k3_a4() {
            let bits = hist::<NoopLock, _>(&mut KaniSrc, 4 | (1 << 11), 64, 0);
            assert!(bits & W_DROP_REGISTERED == 0, "WITNESS reached");
        }
        #[kani::proof]
        #[kani::unwind(5)]
        fn witness_order_k2_a3b0() {
            let bits = hist::<NoopLock, _>(&mut KaniSrc, 3 | (2 << 8) | (1 << 10), 64, 0);
            assert!(bits & W_TWO_EXPIRE == 0, "WITNESS reached");
        }
    }
}

// verification harness include for timer (see /verif/DESIGN.md)

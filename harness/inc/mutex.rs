// Included at the end of /repo/src/sync/mutex.rs under cfg(futures_intrusive_verif).
// Mutex harnesses: E-HIST interpreter (public API only) and E-STEP inductive
// step (private state builder). Properties C02, C03, C04 (+ C01, C17, C18 parts).

pub(crate) mod verif_mutex {
    use super::*;
    use crate::verif::common::*;
    use core::mem::ManuallyDrop;

    // Oracle assertion, selected by the property mask P of the instantiation;
    // the text starts with the property id so that the driver can attribute it.
    macro_rules! oracle {
        ($p:expr, $mask:expr, $cond:expr, $msg:literal) => {
            if ($p & $mask) != 0 {
                assert!($cond, $msg);
            }
        };
    }

    pub const K: usize = 3;

    // reached bits (witness predicates)
    pub const W_TWO_PENDING_WOKEN: u32 = 1; // two futures pending, one was woken by an unlock
    pub const W_READY_AFTER_WAIT: u32 = 2; // a future that had to wait completed
    pub const W_DROP_NOTIFIED: u32 = 4; // a woken future was dropped and the wake-up passed on
    pub const W_WAKER_SWAP: u32 = 8; // a waiting future was re-polled with the other waker and later woken through it

    /// Bounded history through the public API.
    /// cfg bits 0-1: 0 = unfair, 1 = fair, 2 = symbolic; bits 2-3 `pre`: the first `pre` operations are fixed to
    /// "poll lock future #k with waker A" (partition of the script space; they consume no script byte).
    pub fn hist<M: RawMutex, S: Src>(s: &mut S, cfg: u32, n: usize, p: u32) -> u32 {
        let pre = ((cfg >> 2) & 3) as usize;
        // bit 4: the script starts with a fixed try_lock (a guard is held while the `pre` futures queue up)
        let lockfirst = ((cfg >> 4) & 1) as usize;
        let cfg = cfg & 3;
        let fair = if cfg == 2 { s.flag() } else { cfg == 1 };
        let m = GenericMutex::<M, u8>::new(0, fair);
        let (c0a, c0b, c1a, c1b, c2a, c2b) = (
            WakeCell::new(), WakeCell::new(), WakeCell::new(),
            WakeCell::new(), WakeCell::new(), WakeCell::new(),
        );
        let mut f0 = ManuallyDrop::new(m.lock());
        let mut f1 = ManuallyDrop::new(m.lock());
        let mut f2 = ManuallyDrop::new(m.lock());
        let mut guard: Option<GenericMutexGuard<'_, M, u8>> = None;
        if (p & P18) != 0 { arm_alloc(); }

        let mut alive = [true; K];
        let mut pending = [false; K]; // polled, last poll returned Pending
        let mut done = [false; K];
        let mut lw = [0u8; K]; // waker index of the latest poll
        let mut snap = [0u32; K]; // wake count of that waker's cell at the end of the latest poll
        let mut stamp = [0u32; K]; // arrival (first Pending poll)
        let mut swapped = [false; K];
        let mut dead = [false; K]; // slot's future was dropped and not re-created yet
        let mut dsn = [[0u32; 2]; K]; // wake counts of its two wakers just before the drop
        let mut clock = 0u32;
        let mut bits = 0u32;

        let mut step = 0;
        while step < n && !s.exhausted() {
            step += 1;
            let op = if lockfirst == 1 && step == 1 { 10 }
                     else if step <= pre + lockfirst { ((step - 1 - lockfirst) * 2) as u8 }
                     else { s.below(11) };
            if op < 6 {
                // ---- poll slot i with waker w ----
                let i = (op / 2) as usize;
                let w = op % 2;
                s.assume(!done[i]);
                let f = match i { 0 => &mut f0, 1 => &mut f1, _ => &mut f2 };
                if !alive[i] {
                    *f = ManuallyDrop::new(m.lock());
                    alive[i] = true;
                    dead[i] = false;
                    oracle!(p, P17, !f.is_terminated(), "C17 mutex: fresh lock future reports terminated");
                }
                let cell = match (i, w) {
                    (0, 0) => &c0a, (0, _) => &c0b,
                    (1, 0) => &c1a, (1, _) => &c1b,
                    (_, 0) => &c2a, (_, _) => &c2b,
                };
                let waker = ManuallyDrop::new(mk_waker(cell));
                let mut cx = Context::from_waker(&waker);
                let was_pending = pending[i];
                let r = unsafe { Pin::new_unchecked(&mut **f) }.poll(&mut cx);
                match r {
                    Poll::Ready(g) => {
                        oracle!(p, P02, guard.is_none(), "C02 mutex: lock future completed while a guard is alive");
                        if fair {
                            // C04: nobody who started waiting earlier is still pending
                            let mut j = 0;
                            while j < K {
                                if j != i && alive[j] && pending[j] {
                                    oracle!(p, P04, was_pending && stamp[j] > stamp[i],
                                        "C04 fair mutex: a lock future completed ahead of an earlier pending waiter");
                                }
                                j += 1;
                            }
                        }
                        if was_pending { bits |= W_READY_AFTER_WAIT; }
                        if was_pending && swapped[i] { bits |= W_WAKER_SWAP; }
                        pending[i] = false;
                        done[i] = true;
                        if guard.is_none() { guard = Some(g); } else { core::mem::forget(g); }
                    }
                    Poll::Pending => {
                        if !pending[i] {
                            clock += 1;
                            stamp[i] = clock;
                            swapped[i] = false;
                        } else if lw[i] != w {
                            swapped[i] = true;
                        }
                        pending[i] = true;
                        lw[i] = w;
                        snap[i] = cell.n();
                    }
                }
            } else if op < 9 {
                // ---- drop slot i ----
                let i = (op - 6) as usize;
                s.assume(alive[i]);
                let f = match i { 0 => &mut f0, 1 => &mut f1, _ => &mut f2 };
                let woken_before = {
                    let cell = match (i, lw[i]) {
                        (0, 0) => &c0a, (0, _) => &c0b,
                        (1, 0) => &c1a, (1, _) => &c1b,
                        (_, 0) => &c2a, (_, _) => &c2b,
                    };
                    pending[i] && cell.n() > snap[i]
                };
                dsn[i] = match i { 0 => [c0a.n(), c0b.n()], 1 => [c1a.n(), c1b.n()], _ => [c2a.n(), c2b.n()] };
                dead[i] = true;
                unsafe { ManuallyDrop::drop(f) };
                alive[i] = false;
                pending[i] = false;
                done[i] = false;
                if woken_before && (pending[0] || pending[1] || pending[2]) && guard.is_none() {
                    bits |= W_DROP_NOTIFIED;
                }
            } else if op == 9 {
                // ---- drop the guard ----
                s.assume(guard.is_some());
                guard = None;
            } else {
                // ---- try_lock ----
                if let Some(g) = m.try_lock() {
                    oracle!(p, P02, guard.is_none(), "C02 mutex: try_lock succeeded while a guard is alive");
                    if fair {
                        oracle!(p, P04, !(pending[0] || pending[1] || pending[2]),
                            "C04 fair mutex: try_lock succeeded while an earlier waiter is pending");
                    }
                    if guard.is_none() { guard = Some(g); } else { core::mem::forget(g); }
                }
            }

            oracle!(p, P18, alloc_events() == 0, "C18 mutex: an operation allocated or freed heap memory");
            // ================= oracles after every operation =================
            oracle!(p, P02, m.is_locked() == guard.is_some(), "C02 mutex: is_locked() differs from 'a guard is alive'");
            // woken(i): counter of the waker of the latest poll grew since that poll
            let wk0 = pending[0] && (if lw[0] == 0 { c0a.n() } else { c0b.n() }) > snap[0];
            let wk1 = pending[1] && (if lw[1] == 0 { c1a.n() } else { c1b.n() }) > snap[1];
            let wk2 = pending[2] && (if lw[2] == 0 { c2a.n() } else { c2b.n() }) > snap[2];
            let wk = [wk0, wk1, wk2];
            if guard.is_none() && (pending[0] || pending[1] || pending[2]) {
                oracle!(p, P03, wk0 || wk1 || wk2,
                    "C03 mutex: free with pending lock futures but none woken through its latest waker");
                if fair {
                    let mut h = K;
                    let mut j = 0;
                    while j < K {
                        if pending[j] && (h == K || stamp[j] < stamp[h]) { h = j; }
                        j += 1;
                    }
                    oracle!(p, P03, h < K && wk[h], "C03 fair mutex: free but the longest-waiting pending future was not woken");
                }
                if (pending[0] as u8 + pending[1] as u8 + pending[2] as u8) >= 2 && op == 9 {
                    bits |= W_TWO_PENDING_WOKEN;
                }
            }
            if (p & P01) != 0 {
                // C01: a dropped future is in no wait queue any more, so its task is never woken again
                if dead[0] { assert!(c0a.n() == dsn[0][0] && c0b.n() == dsn[0][1], "C01 mutex: the task of a dropped future was woken (dangling waiter)"); }
                if dead[1] { assert!(c1a.n() == dsn[1][0] && c1b.n() == dsn[1][1], "C01 mutex: the task of a dropped future was woken (dangling waiter)"); }
                if dead[2] { assert!(c2a.n() == dsn[2][0] && c2b.n() == dsn[2][1], "C01 mutex: the task of a dropped future was woken (dangling waiter)"); }
            }
            if (p & P17) != 0 {
                if alive[0] { assert!(f0.is_terminated() == done[0], "C17 mutex: is_terminated() differs from 'completed'"); }
                if alive[1] { assert!(f1.is_terminated() == done[1], "C17 mutex: is_terminated() differs from 'completed'"); }
                if alive[2] { assert!(f2.is_terminated() == done[2], "C17 mutex: is_terminated() differs from 'completed'"); }
            }
        }
        core::mem::forget(guard);
        s.reached(bits);
        bits
    }

    /// C03 "through the waker supplied at that last poll", for wakers that differ only in their vtable.
    pub fn waker_identity<M: RawMutex, S: Src>(s: &mut S, p: u32) -> u32 {
        let fair = s.flag();
        let m = GenericMutex::<M, u32>::new(0, fair);
        let g = m.try_lock();
        let c = DualCell::new();
        let mut f = ManuallyDrop::new(m.lock());
        let both_pending = dual_repoll(unsafe { Pin::new_unchecked(&mut *f) }, &c);
        oracle!(p, P02, both_pending && g.is_some(), "C02 mutex: a lock future completed while a guard is alive");
        drop(g);
        if both_pending {
            oracle!(p, P03, c.b.get() >= 1, "C03 mutex: the mutex is free but the pending lock future was not woken through the waker of its latest poll (same data pointer, other vtable)");
        }
        s.reached(c.b.get());
        c.b.get()
    }

    #[no_mangle]
    pub fn fi_verif_replay_mutex(name: &str, cfg: u32, p: u32, s: &mut ScriptSrc<'_>) -> bool {
        match name {
            "mutex_waker_identity" => { waker_identity::<NoopLock, _>(s, p); }
            "mutex_hist_noop" => { hist::<NoopLock, _>(s, cfg, 64, p); }
            "mutex_hist_check" => { hist::<CheckLock, _>(s, cfg, 64, p); }
            _ => return false,
        }
        true
    }


    // =====================================================================
    // E-STEP: one real operation from an arbitrary state satisfying Inv_mutex.
    // Invariant parts are owned by properties (assume-guarantee, DESIGN 6):
    //   R1,R2 (queue membership, stored waker)            -> C01
    //   R3    (is_locked <=> a guard is alive)            -> C02
    //   R5    (free & pending => a pending one is woken)  -> C03
    //   R4,R6 (fair: single Notified head, arrival order) -> C04
    //   Done <=> terminated                               -> C17
    // Every instantiation ASSUMES all parts and ASSERTS the parts of its mask.
    // =====================================================================
    #[cfg(kani)]
    pub mod step {
        use super::*;

        #[derive(Copy, Clone, PartialEq)]
        pub enum S { New, Waiting, Notified, Done }
        fn any_s() -> S {
            let x: u8 = kani::any();
            kani::assume(x < 4);
            match x { 0 => S::New, 1 => S::Waiting, 2 => S::Notified, _ => S::Done }
        }
        fn obs<M: RawMutex>(f: &GenericMutexLockFuture<'_, M, u8>) -> S {
            match f.wait_node.state {
                PollState::New => S::New,
                PollState::Waiting => S::Waiting,
                PollState::Notified => S::Notified,
                PollState::Done => S::Done,
            }
        }
        type Node = ListNode<WaitQueueEntry>;

        /// ops: 0 = poll/drop of a slot, 1 = guard drop, 2 = try_lock (class chosen by the caller, 3 = any)
        pub fn run<M: RawMutex>(fair_cfg: u8, class: u8, p: u32) {
            let fair: bool = if fair_cfg == 2 { kani::any() } else { fair_cfg == 1 };
            let m = GenericMutex::<M, u8>::new(0, fair);
            let (c0a, c0b, c1a, c1b, c2a, c2b) = (
                WakeCell::new(), WakeCell::new(), WakeCell::new(),
                WakeCell::new(), WakeCell::new(), WakeCell::new(),
            );
            let mut f0 = ManuallyDrop::new(m.lock());
            let mut f1 = ManuallyDrop::new(m.lock());
            let mut f2 = ManuallyDrop::new(m.lock());
            // ---- symbolic pre-state ----
            let st = [any_s(), any_s(), any_s()];
            let lw: [bool; 3] = [kani::any(), kani::any(), kani::any()]; // true = waker A was the latest
            let woken: [bool; 3] = [kani::any(), kani::any(), kani::any()];
            let r: [u8; 3] = [kani::any(), kani::any(), kani::any()]; // arrival rank, 0 = oldest
            kani::assume(r[0] < 3 && r[1] < 3 && r[2] < 3 && r[0] != r[1] && r[1] != r[2] && r[0] != r[2]);
            let locked: bool = kani::any();
            let linked = |x: S| x == S::Waiting || (fair && x == S::Notified);
            let pend = |x: S| x == S::Waiting || x == S::Notified;
            let lk = [linked(st[0]), linked(st[1]), linked(st[2])];
            // ---- Inv (assumed) ----
            let mut i = 0;
            while i < 3 {
                if st[i] == S::Notified {
                    kani::assume(woken[i]); // R2/R5: a notified future was woken through its latest waker
                    if fair {
                        // R4: the only Notified, the oldest linked node, and the mutex is free
                        kani::assume(!locked);
                        let mut j = 0;
                        while j < 3 {
                            if j != i && lk[j] { kani::assume(r[j] > r[i]); }
                            j += 1;
                        }
                    }
                }
                i += 1;
            }
            // R5: free and somebody pending => somebody pending is notified (fair: R4 makes it the oldest)
            let any_pend = pend(st[0]) || pend(st[1]) || pend(st[2]);
            let any_not = st[0] == S::Notified || st[1] == S::Notified || st[2] == S::Notified;
            if !locked && any_pend { kani::assume(any_not); }

            macro_rules! setup {
                ($f:ident, $i:expr, $ca:expr, $cb:expr) => {
                    match st[$i] {
                        S::New => {}
                        S::Waiting => {
                            $f.wait_node.state = PollState::Waiting;
                            $f.wait_node.task = Some(if lw[$i] { mk_waker(&$ca) } else { mk_waker(&$cb) });
                        }
                        S::Notified => { $f.wait_node.state = PollState::Notified; }
                        S::Done => { $f.wait_node.state = PollState::Done; $f.mutex = None; }
                    }
                };
            }
            setup!(f0, 0, c0a, c0b);
            setup!(f1, 1, c1a, c1b);
            setup!(f2, 2, c2a, c2b);
            {
                let mut g = m.state.lock();
                g.is_locked = locked;
                // link in rank order: rank 0 is added first and ends up at the tail (oldest)
                let mut k = 0u8;
                while k < 3 {
                    unsafe {
                        if lk[0] && r[0] == k { g.waiters.add_front(&mut f0.wait_node); }
                        if lk[1] && r[1] == k { g.waiters.add_front(&mut f1.wait_node); }
                        if lk[2] && r[2] == k { g.waiters.add_front(&mut f2.wait_node); }
                    }
                    k += 1;
                }
            }
            let guards0: u8 = if locked { 1 } else { 0 };
            let mut guards = guards0;
            let mut alive = [true; 3];
            let mut granted = false; // a lock attempt completed in this step
            let mut polled = 3usize; // slot polled in this step
            let mut polled_w = false;
            let mut snap = 0u32;
            let mut newly_queued = 3usize;

            // ---- one real operation ----
            let t: usize = kani::any();
            kani::assume(t < 3);
            let cls: u8 = if class == 3 { kani::any() } else { class };
            kani::assume(cls < 3);
            if cls == 0 {
                let f = match t { 0 => &mut f0, 1 => &mut f1, _ => &mut f2 };
                let is_poll: bool = kani::any();
                if is_poll {
                    kani::assume(st[t] != S::Done); // contract: no poll after completion
                    let wa: bool = kani::any();
                    let cell = match (t, wa) {
                        (0, true) => &c0a, (0, false) => &c0b,
                        (1, true) => &c1a, (1, false) => &c1b,
                        (_, true) => &c2a, (_, false) => &c2b,
                    };
                    let w = ManuallyDrop::new(mk_waker(cell));
                    let mut cx = Context::from_waker(&w);
                    let res = unsafe { Pin::new_unchecked(&mut **f) }.poll(&mut cx);
                    polled = t;
                    polled_w = wa;
                    snap = cell.n();
                    match res {
                        Poll::Ready(g) => { core::mem::forget(g); guards += 1; granted = true; }
                        Poll::Pending => {
                            if st[t] == S::New || st[t] == S::Notified { newly_queued = t; }
                        }
                    }
                } else {
                    unsafe { ManuallyDrop::drop(f) };
                    alive[t] = false;
                }
            } else if cls == 1 {
                kani::assume(locked);
                drop(GenericMutexGuard::<'_, M, u8> { mutex: &m });
                guards -= 1;
            } else {
                if let Some(g) = m.try_lock() {
                    core::mem::forget(g);
                    guards += 1;
                    granted = true;
                }
            }

            // ---- post-state ----
            let t2 = [obs(&f0), obs(&f1), obs(&f2)];
            let cells_a = [&c0a, &c1a, &c2a];
            let cells_b = [&c0b, &c1b, &c2b];
            // woken'(i): through the waker of the latest poll, since that poll
            let mut wk2 = [false; 3];
            i = 0;
            while i < 3 {
                if i == polled {
                    let c = if polled_w { cells_a[i] } else { cells_b[i] };
                    wk2[i] = c.n() > snap;
                } else {
                    let c = if lw[i] { cells_a[i] } else { cells_b[i] };
                    wk2[i] = woken[i] || c.n() > 0;
                }
                i += 1;
            }
            let p2 = [alive[0] && pend(t2[0]), alive[1] && pend(t2[1]), alive[2] && pend(t2[2])];
            let locked2 = m.is_locked();

            // C02 / R3
            oracle!(p, P02, guards <= 1, "C02 mutex step: two guards alive");
            oracle!(p, P02, locked2 == (guards == 1), "C02 mutex step: is_locked() differs from 'a guard is alive'");
            if granted { oracle!(p, P02, guards0 == 0, "C02 mutex step: lock attempt completed while a guard was alive"); }

            // C03 / R5 (+ Notified => woken through the latest waker)
            i = 0;
            while i < 3 {
                if alive[i] && t2[i] == S::Notified {
                    oracle!(p, P03, wk2[i], "C03 mutex step: future notified but not woken through its latest waker");
                }
                i += 1;
            }
            if !locked2 && (p2[0] || p2[1] || p2[2]) {
                let n0 = p2[0] && t2[0] == S::Notified;
                let n1 = p2[1] && t2[1] == S::Notified;
                let n2 = p2[2] && t2[2] == S::Notified;
                oracle!(p, P03, n0 || n1 || n2, "C03 mutex step: free with pending futures but none of them notified");
            }

            // effective arrival order after the step: a newly queued future is the youngest
            let eff = |i: usize| -> u8 { if i == newly_queued { 10 } else { r[i] } };
            // C04 / R4, R6
            if fair {
                if granted && polled < 3 {
                    i = 0;
                    while i < 3 {
                        if i != polled && pend(st[i]) {
                            oracle!(p, P04, pend(st[polled]) && r[i] > r[polled],
                                "C04 fair mutex step: a lock future completed ahead of an earlier pending waiter");
                        }
                        i += 1;
                    }
                }
                if granted && polled == 3 {
                    oracle!(p, P04, !any_pend, "C04 fair mutex step: try_lock succeeded while a waiter is pending");
                }
                // R4': a Notified future is the oldest pending one and the mutex is free; at most one
                let mut nn = 0u8;
                i = 0;
                while i < 3 {
                    if p2[i] && t2[i] == S::Notified {
                        nn += 1;
                        oracle!(p, P04, !locked2, "C04 fair mutex step: a future is notified while the mutex is locked");
                        let mut j = 0;
                        while j < 3 {
                            if j != i && p2[j] {
                                oracle!(p, P04, eff(j) > eff(i), "C04 fair mutex step: notified future is not the longest-waiting one");
                            }
                            j += 1;
                        }
                    }
                    i += 1;
                }
                oracle!(p, P04, nn <= 1, "C04 fair mutex step: more than one future notified");
            }

            // C01 / R1, R2 (and R6: queue order = arrival order)
            if (p & (P01 | P04 | P03)) != 0 {
                let g = m.state.lock();
                let nodes: [*const Node; 3] = [&f0.wait_node, &f1.wait_node, &f2.wait_node];
                let len = g.waiters.verif_len_checked(3);
                if (p & P01) != 0 {
                    assert!(len.is_some(), "C01 mutex step: wait queue links are inconsistent");
                }
                let mut cnt = 0usize;
                let mut pos = [None, None, None];
                i = 0;
                while i < 3 {
                    let should = alive[i] && linked(t2[i]);
                    pos[i] = g.waiters.verif_pos_from_tail(nodes[i], 3);
                    if (p & P01) != 0 {
                        assert!(pos[i].is_some() == should, "C01 mutex step: wait queue membership differs from {alive and waiting}");
                        if !should {
                            let n = unsafe { &*nodes[i] };
                            assert!(n.verif_unlinked(), "C01 mutex step: a future outside the queue still carries links");
                        }
                    }
                    if should { cnt += 1; }
                    i += 1;
                }
                if (p & P01) != 0 {
                    assert!(len == Some(cnt), "C01 mutex step: wait queue holds a node that is not a live waiting future");
                }
                if (p & (P01 | P03)) != 0 {
                    i = 0;
                    while i < 3 {
                        if alive[i] && t2[i] == S::Waiting {
                            let n = unsafe { &*nodes[i] };
                            let lwc: &WakeCell = if i == polled { if polled_w { cells_a[i] } else { cells_b[i] } }
                                                 else if lw[i] { cells_a[i] } else { cells_b[i] };
                            let ok = match &n.task { Some(w) => w.will_wake(&ManuallyDrop::new(mk_waker(lwc))), None => false };
                            if (p & P01) != 0 { assert!(ok, "C01 mutex step: waiting future does not store the waker of its latest poll"); }
                            if (p & P03) != 0 { assert!(ok, "C03 mutex step: waiting future does not store the waker of its latest poll (it would be woken through a stale waker)"); }
                        }
                        i += 1;
                    }
                }
                if fair && (p & P04) != 0 {
                    // R6': queue order (from the tail) follows the arrival order
                    i = 0;
                    while i < 3 {
                        let mut j = 0;
                        while j < 3 {
                            if let (Some(a), Some(b)) = (pos[i], pos[j]) {
                                if i != j && eff(i) < eff(j) {
                                    assert!(a < b, "C04 fair mutex step: queue order differs from arrival order");
                                }
                            }
                            j += 1;
                        }
                        i += 1;
                    }
                }
            }

            // C17
            if (p & P17) != 0 {
                if alive[0] { assert!(f0.is_terminated() == (t2[0] == S::Done), "C17 mutex step: is_terminated() differs from 'completed'"); }
                if alive[1] { assert!(f1.is_terminated() == (t2[1] == S::Done), "C17 mutex step: is_terminated() differs from 'completed'"); }
                if alive[2] { assert!(f2.is_terminated() == (t2[2] == S::Done), "C17 mutex step: is_terminated() differs from 'completed'"); }
                if granted && polled < 3 { assert!(t2[polled] == S::Done, "C17 mutex step: completed future not marked done"); }
            }
            kani::cover!(granted && polled < 3 && st[polled] == S::Notified, "W step: notified future acquires");
            kani::cover!(!alive[t] && st[t] == S::Notified && (p2[0] || p2[1] || p2[2]), "W step: notified future dropped with others pending");
        }

        /// Base case: Inv holds for a fresh mutex with fresh futures (all New, unlocked, empty queue):
        /// it is the instance st = [New; 3], locked = false of the assumed pre-state, which the
        /// assumptions above admit (checked by the cover below).
        pub fn base<M: RawMutex>() {
            let fair: bool = kani::any();
            let m = GenericMutex::<M, u8>::new(0, fair);
            let f0 = ManuallyDrop::new(m.lock());
            assert!(!m.is_locked(), "C02 mutex base: fresh mutex reports locked");
            assert!(obs(&f0) == S::New && f0.wait_node.verif_unlinked() && f0.wait_node.task.is_none(),
                "C01 mutex base: fresh future is not in state New/unlinked");
            assert!(!f0.is_terminated(), "C17 mutex base: fresh future reports terminated");
            let g = m.state.lock();
            assert!(g.waiters.verif_len_checked(1) == Some(0), "C01 mutex base: fresh mutex has a non-empty queue");
        }
    }

    #[cfg(kani)]
    mod proofs {
        use super::*;
        #[kani::proof]
        #[kani::unwind(3)]
        fn waker_identity_c03() { let b = waker_identity::<NoopLock, _>(&mut KaniSrc, P03); kani::cover!(b >= 1, "W mutex: woken through the latest waker"); }
        #[kani::proof]
        #[kani::unwind(3)]
        fn repoll_panics() {
            let m = GenericMutex::<NoopLock, u8>::new(0, kani::any());
            repoll_after_ready(m.lock());
        }
        #[kani::proof]
        #[kani::unwind(6)]
        #[kani::stub(alloc::alloc::alloc, crate::verif::common::stub_alloc)]
        #[kani::stub(alloc::alloc::dealloc, crate::verif::common::stub_dealloc)]
        #[kani::stub(alloc::alloc::realloc, crate::verif::common::stub_realloc)]
        #[kani::stub(alloc::fmt::format, crate::verif::common::stub_format)]
        fn hist_c18_n5() { let _ = hist::<NoopLock, _>(&mut KaniSrc, 2, 5, P18); }

        macro_rules! hist_proof {
            ($name:ident, $lock:ty, $n:expr, $p:expr, $cfg:expr, $unw:expr) => {
                #[kani::proof]
                #[kani::unwind($unw)]
                fn $name() {
                    let bits = hist::<$lock, _>(&mut KaniSrc, $cfg, $n, $p);
                    kani::cover!(bits & W_TWO_PENDING_WOKEN != 0, "W two pending, unlock wakes one");
                    kani::cover!(bits & W_READY_AFTER_WAIT != 0, "W ready after wait");
                }
            };
        }
        hist_proof!(hist_c02_n4, NoopLock, 4, P02, 2, 5);
        hist_proof!(hist_c02_n5, NoopLock, 5, P02, 2, 6);
        hist_proof!(hist_c02_n7, NoopLock, 7, P02, 2, 8);
        hist_proof!(hist_c02_n8, NoopLock, 8, P02, 2, 9);
        hist_proof!(hist_c02_n6_check, CheckLock, 6, P02, 2, 7);
        hist_proof!(hist_c03_n4, NoopLock, 4, P03, 2, 5);
        hist_proof!(hist_c03_n5, NoopLock, 5, P03, 2, 6);
        hist_proof!(hist_c03_n7, NoopLock, 7, P03, 2, 8);
        hist_proof!(hist_c03_n8, NoopLock, 8, P03, 2, 9);
        hist_proof!(hist_c03_n6_check, CheckLock, 6, P03, 2, 7);
        hist_proof!(hist_c04_n4, NoopLock, 4, P04, 1, 5);
        hist_proof!(hist_c04_n5, NoopLock, 5, P04, 1, 6);
        hist_proof!(hist_c04_n7, NoopLock, 7, P04, 1, 8);
        hist_proof!(hist_c04_n8, NoopLock, 8, P04, 1, 9);
        hist_proof!(hist_c04_n6_check, CheckLock, 6, P04, 1, 7);
        hist_proof!(hist_c17_n4, NoopLock, 4, P17, 2, 5);
        hist_proof!(hist_c17_n5, NoopLock, 5, P17, 2, 6);
        hist_proof!(hist_c17_n7, NoopLock, 7, P17, 2, 8);
        hist_proof!(hist_c17_n8, NoopLock, 8, P17, 2, 9);
        hist_proof!(hist_c17_n6_check, CheckLock, 6, P17, 2, 7);
        hist_proof!(hist_c01_n4, NoopLock, 4, P01, 2, 5);
        hist_proof!(hist_c01_n5, NoopLock, 5, P01, 2, 6);
        hist_proof!(hist_c01_n7, NoopLock, 7, P01, 2, 8);
        hist_proof!(hist_c01_n8, NoopLock, 8, P01, 2, 9);
        hist_proof!(hist_c01_n6_check, CheckLock, 6, P01, 2, 7);

        hist_proof!(hist_c02_p3_n6, NoopLock, 6, P02, 2 | (3 << 2), 7);
        hist_proof!(hist_c02_p3_n7, NoopLock, 7, P02, 2 | (3 << 2), 8);
        hist_proof!(hist_c02_p3_n8, NoopLock, 8, P02, 2 | (3 << 2), 9);
        hist_proof!(hist_c03_p3_n6, NoopLock, 6, P03, 2 | (3 << 2), 7);
        hist_proof!(hist_c03_p3_n7, NoopLock, 7, P03, 2 | (3 << 2), 8);
        hist_proof!(hist_c03_p3_n8, NoopLock, 8, P03, 2 | (3 << 2), 9);
        hist_proof!(hist_c04_p3_n6, NoopLock, 6, P04, 1 | (3 << 2), 7);
        hist_proof!(hist_c04_p3_n7, NoopLock, 7, P04, 1 | (3 << 2), 8);
        hist_proof!(hist_c04_p3_n8, NoopLock, 8, P04, 1 | (3 << 2), 9);
        hist_proof!(hist_c17_p3_n6, NoopLock, 6, P17, 2 | (3 << 2), 7);
        hist_proof!(hist_c17_p3_n7, NoopLock, 7, P17, 2 | (3 << 2), 8);
        hist_proof!(hist_c17_p3_n8, NoopLock, 8, P17, 2 | (3 << 2), 9);
        hist_proof!(hist_c01_p3_n6, NoopLock, 6, P01, 2 | (3 << 2), 7);
        hist_proof!(hist_c01_p3_n7, NoopLock, 7, P01, 2 | (3 << 2), 8);
        hist_proof!(hist_c01_p3_n8, NoopLock, 8, P01, 2 | (3 << 2), 9);
        hist_proof!(hist_c02_l_p3_n7, NoopLock, 7, P02, 2 | (3 << 2) | (1 << 4), 8);
        hist_proof!(hist_c02_l_p3_n8, NoopLock, 8, P02, 2 | (3 << 2) | (1 << 4), 9);
        hist_proof!(hist_c02_l_p2_n6, NoopLock, 6, P02, 2 | (2 << 2) | (1 << 4), 7);
        hist_proof!(hist_c03_l_p3_n7, NoopLock, 7, P03, 2 | (3 << 2) | (1 << 4), 8);
        hist_proof!(hist_c03_l_p3_n8, NoopLock, 8, P03, 2 | (3 << 2) | (1 << 4), 9);
        hist_proof!(hist_c03_l_p2_n6, NoopLock, 6, P03, 2 | (2 << 2) | (1 << 4), 7);
        hist_proof!(hist_c04_l_p3_n7, NoopLock, 7, P04, 1 | (3 << 2) | (1 << 4), 8);
        hist_proof!(hist_c04_l_p3_n8, NoopLock, 8, P04, 1 | (3 << 2) | (1 << 4), 9);
        hist_proof!(hist_c04_l_p2_n6, NoopLock, 6, P04, 1 | (2 << 2) | (1 << 4), 7);
        hist_proof!(hist_c17_l_p3_n7, NoopLock, 7, P17, 2 | (3 << 2) | (1 << 4), 8);
        hist_proof!(hist_c17_l_p3_n8, NoopLock, 8, P17, 2 | (3 << 2) | (1 << 4), 9);
        hist_proof!(hist_c17_l_p2_n6, NoopLock, 6, P17, 2 | (2 << 2) | (1 << 4), 7);
        hist_proof!(hist_c01_l_p3_n7, NoopLock, 7, P01, 2 | (3 << 2) | (1 << 4), 8);
        hist_proof!(hist_c01_l_p3_n8, NoopLock, 8, P01, 2 | (3 << 2) | (1 << 4), 9);
        hist_proof!(hist_c01_l_p2_n6, NoopLock, 6, P01, 2 | (2 << 2) | (1 << 4), 7);
        hist_proof!(hist_c02_l_p2_n7, NoopLock, 7, P02, 2 | (2 << 2) | (1 << 4), 8);
        hist_proof!(hist_c03_l_p2_n7, NoopLock, 7, P03, 2 | (2 << 2) | (1 << 4), 8);
        hist_proof!(hist_c04_l_p2_n7, NoopLock, 7, P04, 1 | (2 << 2) | (1 << 4), 8);
        hist_proof!(hist_c17_l_p2_n7, NoopLock, 7, P17, 2 | (2 << 2) | (1 << 4), 8);
        hist_proof!(hist_c01_l_p2_n7, NoopLock, 7, P01, 2 | (2 << 2) | (1 << 4), 8);
        macro_rules! step_proof {
            ($name:ident, $lock:ty, $fair:expr, $class:expr, $p:expr) => {
                #[kani::proof]
                #[kani::unwind(6)]
                fn $name() {
                    step::run::<$lock>($fair, $class, $p);
                }
            };
        }
        step_proof!(step_c01, NoopLock, 2, 3, P01);
        step_proof!(step_c01_check, CheckLock, 2, 3, P01);
        step_proof!(step_c02, NoopLock, 2, 3, P02);
        step_proof!(step_c03, NoopLock, 2, 3, P03);
        step_proof!(step_c04, NoopLock, 1, 3, P04);
        step_proof!(step_c17, NoopLock, 2, 3, P17);
        #[kani::proof]
        #[kani::unwind(6)]
        fn step_base() {
            step::base::<NoopLock>();
        }

        #[kani::proof]
        #[kani::unwind(6)]
        fn witness_hist_n5() {
            let bits = hist::<NoopLock, _>(&mut KaniSrc, 2, 5, 0);
            assert!(bits & W_TWO_PENDING_WOKEN == 0, "WITNESS reached");
        }
    }
}

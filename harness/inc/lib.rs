// Included at the end of /repo/src/lib.rs under cfg(futures_intrusive_verif).
// Common harness infrastructure shared by the Kani build (cfg(kani)) and the
// native replayer (/verif/replay): source of nondeterminism, counting wakers,
// a discipline-checking raw lock, drop-counting payloads, and the replay
// dispatcher. See /verif/DESIGN.md sections 2-4.

#[doc(hidden)]
pub(crate) type LocalLock = NoopLock;

#[doc(hidden)]
#[allow(missing_docs, dead_code, unused, missing_debug_implementations)]
pub mod verif {
    pub mod common {
        use core::cell::Cell;
        use core::sync::atomic::{AtomicU32, AtomicU8, Ordering};
        use core::task::{RawWaker, RawWakerVTable, Waker};

        // ---------------------------------------------------------------
        // Source of nondeterminism: kani::any() in the model, the next
        // script byte in the native replayer.
        // ---------------------------------------------------------------
        pub trait Src {
            fn u8(&mut self) -> u8;
            fn assume(&mut self, c: bool);
            /// Native replays stop at the end of the script; the model never does.
            #[inline]
            fn exhausted(&self) -> bool {
                false
            }
            /// Marks that the harness-specific "interesting" point was reached
            /// (used by witness replays to compare model and native run).
            fn reached(&mut self, _what: u32) {}
            #[inline]
            fn below(&mut self, n: u8) -> u8 {
                let x = self.u8();
                self.assume(x < n);
                x
            }
            #[inline]
            fn flag(&mut self) -> bool {
                self.below(2) == 1
            }
            fn u64(&mut self) -> u64 {
                let mut v = 0u64;
                let mut i = 0;
                while i < 8 {
                    v |= (self.u8() as u64) << (8 * i);
                    i += 1;
                }
                v
            }
        }

        #[cfg(kani)]
        pub struct KaniSrc;
        #[cfg(kani)]
        impl Src for KaniSrc {
            #[inline]
            fn u8(&mut self) -> u8 {
                kani::any()
            }
            #[inline]
            fn assume(&mut self, c: bool) {
                kani::assume(c)
            }
            fn u64(&mut self) -> u64 {
                // one any() per byte so that the playback script stays a
                // plain byte string
                let mut v = 0u64;
                let mut i = 0;
                while i < 8 {
                    v |= (kani::any::<u8>() as u64) << (8 * i);
                    i += 1;
                }
                v
            }
        }

        /// Native source: the bytes of a solver-produced script.
        pub struct ScriptSrc<'a> {
            pub bytes: &'a [u8],
            pub pos: usize,
            pub reached: u32,
        }
        impl<'a> ScriptSrc<'a> {
            pub fn new(bytes: &'a [u8]) -> Self {
                ScriptSrc { bytes, pos: 0, reached: 0 }
            }
        }
        impl<'a> Src for ScriptSrc<'a> {
            fn u8(&mut self) -> u8 {
                let b = if self.pos < self.bytes.len() { self.bytes[self.pos] } else { 0 };
                self.pos += 1;
                b
            }
            fn assume(&mut self, c: bool) {
                if !c {
                    panic!("VERIF-ASSUME-REJECTED: script leaves the harness domain");
                }
            }
            fn reached(&mut self, what: u32) {
                self.reached |= what;
            }
            fn exhausted(&self) -> bool {
                self.pos >= self.bytes.len()
            }
        }

        // ---------------------------------------------------------------
        // Counting wakers. clone/drop are no-ops, so a waker never allocates
        // and `will_wake` compares the cell address.
        // ---------------------------------------------------------------
        pub static WAKE_SEQ: AtomicU32 = AtomicU32::new(0);

        pub struct WakeCell {
            pub wakes: Cell<u32>,
            pub last_seq: Cell<u32>,
        }
        impl WakeCell {
            pub const fn new() -> Self {
                WakeCell { wakes: Cell::new(0), last_seq: Cell::new(0) }
            }
            #[inline]
            pub fn n(&self) -> u32 {
                self.wakes.get()
            }
        }
        unsafe fn w_clone(p: *const ()) -> RawWaker {
            RawWaker::new(p, &VT)
        }
        unsafe fn w_wake(p: *const ()) {
            let c = &*(p as *const WakeCell);
            c.wakes.set(c.wakes.get().wrapping_add(1));
            let s = WAKE_SEQ.load(Ordering::Relaxed).wrapping_add(1);
            WAKE_SEQ.store(s, Ordering::Relaxed);
            c.last_seq.set(s);
        }
        unsafe fn w_drop(_p: *const ()) {}
        static VT: RawWakerVTable = RawWakerVTable::new(w_clone, w_wake, w_wake, w_drop);
        #[inline]
        pub fn mk_waker(c: &WakeCell) -> Waker {
            unsafe { Waker::from_raw(RawWaker::new(c as *const WakeCell as *const (), &VT)) }
        }

        // Two wakers with the SAME data pointer and DIFFERENT vtables (executors with static per-task vtables, or one
        // context object with several wake strategies): `will_wake` is false between them although the data pointers agree.
        pub struct DualCell { pub a: Cell<u32>, pub b: Cell<u32> }
        impl DualCell { pub const fn new() -> Self { DualCell { a: Cell::new(0), b: Cell::new(0) } } }
        unsafe fn da_clone(p: *const ()) -> RawWaker { RawWaker::new(p, &VT_A) }
        unsafe fn db_clone(p: *const ()) -> RawWaker { RawWaker::new(p, &VT_B) }
        unsafe fn da_wake(p: *const ()) { let c = &*(p as *const DualCell); c.a.set(c.a.get().wrapping_add(1)); }
        unsafe fn db_wake(p: *const ()) { let c = &*(p as *const DualCell); c.b.set(c.b.get().wrapping_add(1)); }
        static VT_A: RawWakerVTable = RawWakerVTable::new(da_clone, da_wake, da_wake, w_drop);
        static VT_B: RawWakerVTable = RawWakerVTable::new(db_clone, db_wake, db_wake, w_drop);
        pub fn mk_waker_a(c: &DualCell) -> Waker { unsafe { Waker::from_raw(RawWaker::new(c as *const DualCell as *const (), &VT_A)) } }
        pub fn mk_waker_b(c: &DualCell) -> Waker { unsafe { Waker::from_raw(RawWaker::new(c as *const DualCell as *const (), &VT_B)) } }
        /// Polls `f` with waker A and then with waker B of one DualCell; returns false if one of the polls completed.
        pub fn dual_repoll<F: core::future::Future>(f: core::pin::Pin<&mut F>, c: &DualCell) -> bool {
            let wa = core::mem::ManuallyDrop::new(mk_waker_a(c));
            let wb = core::mem::ManuallyDrop::new(mk_waker_b(c));
            let mut f = f;
            let r1 = { let mut cx = core::task::Context::from_waker(&wa); f.as_mut().poll(&mut cx) };
            if let core::task::Poll::Ready(v) = r1 { core::mem::forget(v); return false; }
            let r2 = { let mut cx = core::task::Context::from_waker(&wb); f.as_mut().poll(&mut cx) };
            if let core::task::Poll::Ready(v) = r2 { core::mem::forget(v); return false; }
            true
        }

        // ---------------------------------------------------------------
        // A raw lock that checks the locking discipline of the Sync flavours:
        // lock() on a held lock is a self-deadlock with a real mutex.
        // ---------------------------------------------------------------
        /// Contention model for the thread-safe flavours: while set, the next try_lock() on a CheckLock fails once, as if
        /// another thread were inside the critical section right now (lock() would simply wait for it, so it is unaffected).
        pub static CONTENDED: AtomicU8 = AtomicU8::new(0);
        pub struct CheckLock(Cell<bool>);
        unsafe impl Sync for CheckLock {}
        unsafe impl Send for CheckLock {}
        unsafe impl lock_api::RawMutex for CheckLock {
            const INIT: CheckLock = CheckLock(Cell::new(false));
            type GuardMarker = lock_api::GuardSend;
            fn lock(&self) {
                assert!(!self.0.get(), "C01 CheckLock: internal lock acquired while already held (self-deadlock)");
                self.0.set(true);
            }
            fn try_lock(&self) -> bool {
                if CONTENDED.load(Ordering::Relaxed) != 0 {
                    CONTENDED.store(0, Ordering::Relaxed);
                    return false;
                }
                if self.0.get() {
                    false
                } else {
                    self.0.set(true);
                    true
                }
            }
            unsafe fn unlock(&self) {
                assert!(self.0.get(), "C01 CheckLock: internal lock released while not held");
                self.0.set(false);
            }
        }

        // ---------------------------------------------------------------
        // Drop-counting payload with identity.
        // ---------------------------------------------------------------
        pub const NTAGS: usize = 16;
        pub static TAG_DROPS: [AtomicU8; NTAGS] = [
            AtomicU8::new(0), AtomicU8::new(0), AtomicU8::new(0), AtomicU8::new(0),
            AtomicU8::new(0), AtomicU8::new(0), AtomicU8::new(0), AtomicU8::new(0),
            AtomicU8::new(0), AtomicU8::new(0), AtomicU8::new(0), AtomicU8::new(0),
            AtomicU8::new(0), AtomicU8::new(0), AtomicU8::new(0), AtomicU8::new(0),
        ];
        pub static TAG_CLONES: AtomicU8 = AtomicU8::new(0);
        /// zero-sized payload (VecDeque reports capacity usize::MAX for zero-sized element types)
        #[derive(Debug)]
        pub struct ZVal;
        pub static ZVAL_DROPS: AtomicU32 = AtomicU32::new(0);
        impl Drop for ZVal {
            fn drop(&mut self) {
                let v = ZVAL_DROPS.load(Ordering::Relaxed);
                ZVAL_DROPS.store(v.wrapping_add(1), Ordering::Relaxed);
            }
        }
        pub fn zval_drops() -> u32 { ZVAL_DROPS.load(Ordering::Relaxed) }
        #[derive(Debug, PartialEq, Eq)]
        pub struct Tag(pub u8);
        impl Drop for Tag {
            fn drop(&mut self) {
                let i = (self.0 as usize) % NTAGS;
                let v = TAG_DROPS[i].load(Ordering::Relaxed);
                TAG_DROPS[i].store(v.wrapping_add(1), Ordering::Relaxed);
            }
        }
        impl Clone for Tag {
            fn clone(&self) -> Tag {
                let v = TAG_CLONES.load(Ordering::Relaxed);
                TAG_CLONES.store(v.wrapping_add(1), Ordering::Relaxed);
                Tag(self.0)
            }
        }
        pub fn tag_drops(i: u8) -> u8 {
            TAG_DROPS[(i as usize) % NTAGS].load(Ordering::Relaxed)
        }
        pub fn reset_tags() {
            let mut i = 0;
            while i < NTAGS {
                TAG_DROPS[i].store(0, Ordering::Relaxed);
                i += 1;
            }
            TAG_CLONES.store(0, Ordering::Relaxed);
        }

        #[cfg(kani)]
        mod proofs {
            /// Trivial harness used by the driver to compile the crate once.
            #[kani::proof]
            fn warm() {}
        }

        // ---------------------------------------------------------------
        // C18: allocation counting. In the model the three allocator entry points are replaced by counting
        // stubs (cargo kani -Z stubbing); natively the replayer installs a counting #[global_allocator]
        // that reports here. Counting is armed after the primitive has been constructed.
        // ---------------------------------------------------------------
        pub static ALLOC_ARMED: AtomicU8 = AtomicU8::new(0);
        pub static ALLOC_EVENTS: AtomicU32 = AtomicU32::new(0);
        pub fn arm_alloc() { ALLOC_EVENTS.store(0, Ordering::Relaxed); ALLOC_ARMED.store(1, Ordering::Relaxed); }
        /// selftest only: count allocations without tripping the assertion inside the stubs
        pub fn arm_alloc_count_only() { ALLOC_EVENTS.store(0, Ordering::Relaxed); ALLOC_ARMED.store(2, Ordering::Relaxed); }
        pub fn disarm_alloc() { ALLOC_ARMED.store(0, Ordering::Relaxed); }
        pub fn alloc_events() -> u32 { ALLOC_EVENTS.load(Ordering::Relaxed) }
        #[inline]
        pub fn note_alloc_event() {
            if ALLOC_ARMED.load(Ordering::Relaxed) != 0 {
                let v = ALLOC_EVENTS.load(Ordering::Relaxed);
                ALLOC_EVENTS.store(v.wrapping_add(1), Ordering::Relaxed);
            }
        }
        #[cfg(all(kani, feature = "alloc"))]
        pub unsafe fn stub_alloc(layout: core::alloc::Layout) -> *mut u8 {
            // asserted right here as well: an allocation is a definite failure even if the code that follows it
            // (e.g. Vec growth loops) exceeds the unwinding bound of the harness
            assert!(ALLOC_ARMED.load(Ordering::Relaxed) != 1, "C18 heap allocation (alloc) reached while a primitive is in use");
            note_alloc_event();
            alloc::alloc::alloc_zeroed(layout)
        }
        #[cfg(all(kani, feature = "alloc"))]
        pub unsafe fn stub_dealloc(_ptr: *mut u8, _layout: core::alloc::Layout) {
            note_alloc_event();
        }
        /// `format!` / `alloc::fmt::format`: building a String is a heap allocation. Stubbed so that (a) it is reported at the
        /// call like the other allocator entry points and (b) the formatting machinery does not end up in the formula.
        #[cfg(all(kani, feature = "alloc"))]
        pub fn stub_format(_args: core::fmt::Arguments<'_>) -> alloc::string::String {
            assert!(ALLOC_ARMED.load(Ordering::Relaxed) != 1, "C18 heap allocation (format!) reached while a primitive is in use");
            note_alloc_event();
            alloc::string::String::new()
        }
        #[cfg(all(kani, feature = "alloc"))]
        pub unsafe fn stub_realloc(_ptr: *mut u8, layout: core::alloc::Layout, new_size: usize) -> *mut u8 {
            assert!(ALLOC_ARMED.load(Ordering::Relaxed) != 1, "C18 heap allocation (realloc) reached while a primitive is in use");
            note_alloc_event();
            alloc::alloc::alloc_zeroed(core::alloc::Layout::from_size_align_unchecked(new_size, layout.align()))
        }

        /// C17: polling a completed future must panic instead of yielding a second result.
        /// The first poll has to complete (the caller prepared the primitive accordingly).
        pub fn repoll_after_ready<F: core::future::Future>(f: F) {
            let cell = WakeCell::new();
            let waker = core::mem::ManuallyDrop::new(mk_waker(&cell));
            let mut cx = core::task::Context::from_waker(&waker);
            let mut f = core::mem::ManuallyDrop::new(f);
            match unsafe { core::pin::Pin::new_unchecked(&mut *f) }.poll(&mut cx) {
                core::task::Poll::Ready(v) => core::mem::forget(v),
                core::task::Poll::Pending => { assert!(false, "harness: first poll was expected to complete"); }
            }
            match unsafe { core::pin::Pin::new_unchecked(&mut *f) }.poll(&mut cx) {
                core::task::Poll::Ready(v) => core::mem::forget(v),
                core::task::Poll::Pending => {}
            }
            assert!(false, "SENTINEL a completed future was polled again and did not panic");
        }

        /// Property selection masks (one harness body, one instantiation per
        /// property, so that each check decides only its own oracle).
        pub const P01: u32 = 1 << 1;
        pub const P02: u32 = 1 << 2;
        pub const P03: u32 = 1 << 3;
        pub const P04: u32 = 1 << 4;
        pub const P05: u32 = 1 << 5;
        pub const P06: u32 = 1 << 6;
        pub const P07: u32 = 1 << 7;
        pub const P08: u32 = 1 << 8;
        pub const P09: u32 = 1 << 9;
        pub const P10: u32 = 1 << 10;
        pub const P11: u32 = 1 << 11;
        pub const P12: u32 = 1 << 12;
        pub const P13: u32 = 1 << 13;
        pub const P14: u32 = 1 << 14;
        pub const P15: u32 = 1 << 15;
        pub const P17: u32 = 1 << 17;
        pub const P18: u32 = 1 << 18;
        pub const P19: u32 = 1 << 19;
        pub const P20: u32 = 1 << 20;
        pub const PALL: u32 = 0xffff_ffff;

    }

    /// Native replay entry point used by /verif/replay: runs the named
    /// history interpreter on a concrete script. Oracle violations panic with
    /// the oracle's message; returns the "reached" bits otherwise.
    pub fn replay(harness: &str, cfg: u32, props: u32, script: &[u8]) -> Option<u32> {
        let mut s = common::ScriptSrc::new(script);
        let ok = replay_dispatch(harness, cfg, props, &mut s);
        if ok {
            Some(s.reached)
        } else {
            None
        }
    }

    include!(concat!(env!("FI_VERIF_INC"), "/dispatch.rs"));
    #[cfg(feature = "alloc")]
    include!(concat!(env!("FI_VERIF_INC"), "/life.rs"));
}

// verification harness include for heap (see /verif/DESIGN.md)

// Included at the end of /repo/src/intrusive_pairing_heap.rs under cfg(futures_intrusive_verif).
// C20 (heap part): the pairing heap always exposes a minimum and supports removal of any member
// (duplicates, re-insertion); links stay mutually consistent; removed nodes carry no links.
// Also provides read-only accessors for the timer harness (C01/C15).

impl<T> PairingHeap<T> {
    /// membership test for the harnesses: a node is in the heap iff it is the root or carries links
    pub(crate) fn verif_contains(&self, node: &HeapNode<T>) -> bool {
        self.root == Some(NonNull::from(node)) || !node.verif_unlinked()
    }
}

impl<T> HeapNode<T> {
    pub(crate) fn verif_unlinked(&self) -> bool {
        self.parent.is_none() && self.prev.is_none() && self.next.is_none() && self.first_child.is_none()
    }
}

/// Builds ANY heap-ordered multiway tree over the member subset of 4 nodes from a symbolic parent map
/// (with acyclicity rank) and sibling order; the caller has set the keys. Kani only (uses assume).
#[cfg(kani)]
pub(crate) unsafe fn verif_build4<T: Ord>(heap: &mut PairingHeap<T>, tab: &[*mut HeapNode<T>; 4], member: &[bool; 4]) {
    const K: usize = 4;
    let par: [u8; K] = kani::any();
    let dep: [u8; K] = kani::any();
    let rank: [u8; K] = kani::any();
    let mut i = 0;
    let mut roots = 0;
    let mut cntm = 0;
    while i < K {
        kani::assume(par[i] as usize <= K && dep[i] as usize <= K && (rank[i] as usize) < K);
        if member[i] {
            cntm += 1;
            if par[i] as usize == K { roots += 1; } else {
                let p = par[i] as usize;
                kani::assume(p != i && member[p] && dep[p] < dep[i] && !((*tab[i]).data < (*tab[p]).data));
            }
        }
        let mut j = 0;
        while j < i { kani::assume(rank[i] != rank[j]); j += 1; }
        i += 1;
    }
    kani::assume((cntm == 0 && roots == 0) || roots == 1);
    i = 0;
    while i < K {
        if member[i] {
            if par[i] as usize == K {
                heap.root = NonNull::new(tab[i]);
            } else {
                let p = par[i] as usize;
                (*tab[i]).parent = NonNull::new(tab[p]);
                let mut prev: usize = K;
                let mut next: usize = K;
                let mut j = 0;
                while j < K {
                    if j != i && member[j] && par[j] == par[i] {
                        if rank[j] < rank[i] && (prev == K || rank[prev] < rank[j]) { prev = j; }
                        if rank[j] > rank[i] && (next == K || rank[next] > rank[j]) { next = j; }
                    }
                    j += 1;
                }
                if prev != K { (*tab[i]).prev = NonNull::new(tab[prev]); } else { (*tab[p]).first_child = NonNull::new(tab[i]); }
                if next != K { (*tab[i]).next = NonNull::new(tab[next]); }
            }
        }
        i += 1;
    }
}

/// Structural validator, generic: exactly the members are linked into one heap-ordered tree.
pub(crate) unsafe fn verif_validate4<T: Ord>(heap: &PairingHeap<T>, tab: &[*mut HeapNode<T>; 4], member: &[bool; 4]) -> bool {
    const K: usize = 4;
    let idx = |p: NonNull<HeapNode<T>>| -> usize {
        let mut i = 0;
        while i < K { if tab[i] == p.as_ptr() { return i; } i += 1; }
        K
    };
    let mut cnt = 0usize;
    let mut roots = 0usize;
    let mut i = 0;
    while i < K {
        let n = &*tab[i];
        let me = NonNull::new(tab[i]);
        if !member[i] {
            if !n.verif_unlinked() { return false; }
        } else {
            cnt += 1;
            match n.parent {
                None => {
                    roots += 1;
                    if heap.root != me || n.prev.is_some() || n.next.is_some() { return false; }
                }
                Some(p) => {
                    let pi = idx(p);
                    if !(pi < K && member[pi] && pi != i) { return false; }
                    if n.data < (*tab[pi]).data { return false; }
                    match n.prev {
                        None => { if (*tab[pi]).first_child != me { return false; } }
                        Some(q) => {
                            let qi = idx(q);
                            if !(qi < K && member[qi] && (*tab[qi]).next == me && (*tab[qi]).parent == n.parent) { return false; }
                        }
                    }
                }
            }
            if let Some(q) = n.next {
                let qi = idx(q);
                if !(qi < K && member[qi] && (*tab[qi]).prev == me) { return false; }
            }
            if let Some(c) = n.first_child {
                let ci = idx(c);
                if !(ci < K && member[ci] && (*tab[ci]).parent == me && (*tab[ci]).prev.is_none()) { return false; }
            }
            let mut cur = n;
            let mut d = 0;
            while d < K {
                match cur.parent { None => break, Some(p) => { cur = &*p.as_ptr(); } }
                d += 1;
            }
            if cur.parent.is_some() { return false; }
        }
        i += 1;
    }
    if cnt == 0 { heap.root.is_none() } else { roots == 1 }
}

pub(crate) mod verif_heap {
    use super::*;
    use crate::verif::common::*;

    pub const K: usize = 5;
    type N = HeapNode<u8>;

    pub const W_REMOVE_INNER: u32 = 1; // removed a node that has a parent and >= 2 children
    pub const W_REMOVE_ROOT3: u32 = 2; // removed the root while it had >= 3 children
    pub const W_REINSERT: u32 = 4; // inserted a node that had been a member before
    pub const W_DUP_MIN: u32 = 8; // two members share the minimum key

    unsafe fn idx(tab: &[*mut N; K], p: NonNull<N>) -> usize {
        let mut i = 0;
        while i < K {
            if tab[i] == p.as_ptr() { return i; }
            i += 1;
        }
        K
    }
    fn nn(p: *mut N) -> Option<NonNull<N>> { NonNull::new(p) }

    /// Structural validator over the node table: parent/child/sibling links mutually consistent, single root,
    /// every member reaches the root, heap order, non-members carry no links; peek_min is a minimum.
    pub unsafe fn validate(heap: &PairingHeap<u8>, tab: &[*mut N; K], member: &[bool; K]) {
        let mut cnt = 0usize;
        let mut roots = 0usize;
        let mut i = 0;
        while i < K {
            let n = &*tab[i];
            let me = nn(tab[i]);
            if !member[i] {
                assert!(n.verif_unlinked(), "C20 heap: a node outside the heap still carries links");
            } else {
                cnt += 1;
                match n.parent {
                    None => {
                        roots += 1;
                        assert!(heap.root == me, "C20 heap: a member without parent is not the root");
                        assert!(n.prev.is_none() && n.next.is_none(), "C20 heap: the root has siblings");
                    }
                    Some(p) => {
                        let pi = idx(tab, p);
                        assert!(pi < K && member[pi] && pi != i, "C20 heap: parent link leaves the member set");
                        assert!((*tab[pi]).data <= n.data, "C20 heap: heap order violated");
                        match n.prev {
                            None => assert!((*tab[pi]).first_child == me, "C20 heap: first child link inconsistent"),
                            Some(q) => {
                                let qi = idx(tab, q);
                                assert!(qi < K && member[qi] && (*tab[qi]).next == me, "C20 heap: prev/next links inconsistent");
                                assert!((*tab[qi]).parent == n.parent, "C20 heap: siblings with different parents");
                            }
                        }
                    }
                }
                if let Some(q) = n.next {
                    let qi = idx(tab, q);
                    assert!(qi < K && member[qi] && (*tab[qi]).prev == me, "C20 heap: next/prev links inconsistent");
                }
                if let Some(c) = n.first_child {
                    let ci = idx(tab, c);
                    assert!(ci < K && member[ci] && (*tab[ci]).parent == me && (*tab[ci]).prev.is_none(),
                        "C20 heap: first_child/parent links inconsistent");
                }
                // reaches the root within K steps (no parent cycle)
                let mut cur = n;
                let mut d = 0;
                while d < K {
                    match cur.parent { None => break, Some(p) => { cur = &*p.as_ptr(); } }
                    d += 1;
                }
                assert!(cur.parent.is_none(), "C20 heap: parent chain does not reach the root");
            }
            i += 1;
        }
        if cnt == 0 {
            assert!(heap.root.is_none(), "C20 heap: empty heap has a root");
            assert!(heap.peek_min().is_none(), "C20 heap: peek_min on an empty heap");
        } else {
            assert!(roots == 1, "C20 heap: not exactly one root");
            let m = heap.peek_min();
            assert!(m.is_some(), "C20 heap: peek_min is None on a non-empty heap");
            let mk = m.unwrap().as_ref().data;
            i = 0;
            while i < K {
                if member[i] { assert!(mk <= (*tab[i]).data, "C20 heap: peek_min is not a minimum"); }
                i += 1;
            }
        }
    }

    unsafe fn nchildren(n: &N) -> usize {
        let mut c = 0;
        let mut cur = n.first_child;
        let mut d = 0;
        while d < K {
            match cur { None => break, Some(p) => { c += 1; cur = p.as_ref().next; } }
            d += 1;
        }
        c
    }

    /// One operation: insert(non-member, symbolic key; re-insertion allowed) or remove(any member).
    pub unsafe fn apply<S: Src>(s: &mut S, heap: &mut PairingHeap<u8>, tab: &[*mut N; K], member: &mut [bool; K],
                                was: &mut [bool; K], kmax: usize, opsel: u8) -> u32 {
        let op = if opsel < 2 { opsel } else { s.below(2) };
        let t = s.below(kmax as u8) as usize;
        let mut bits = 0;
        if op == 0 {
            s.assume(!member[t]);
            let key = s.below(3);
            (*tab[t]).data = key;
            if was[t] { bits |= W_REINSERT; }
            heap.insert(&mut *tab[t]);
            member[t] = true;
            was[t] = true;
        } else {
            s.assume(member[t]);
            let n = &*tab[t];
            let ch = nchildren(n);
            if n.parent.is_some() && ch >= 2 { bits |= W_REMOVE_INNER; }
            if n.parent.is_none() && ch >= 3 { bits |= W_REMOVE_ROOT3; }
            heap.remove(&mut *tab[t]);
            member[t] = false;
        }
        bits
    }

    /// E-HIST from the empty heap; after every operation peek_min is compared with the minimum key of the
    /// model multiset; the structural validator runs after every operation natively (`every`) and once after a
    /// symbolically chosen stopping point in the model.
    pub fn hist<S: Src>(s: &mut S, n: usize, kmax: usize, pre: usize, every: bool) -> u32 {
        let mut n0 = HeapNode::new(0u8);
        let mut n1 = HeapNode::new(0u8);
        let mut n2 = HeapNode::new(0u8);
        let mut n3 = HeapNode::new(0u8);
        let mut n4 = HeapNode::new(0u8);
        let tab: [*mut N; K] = [&mut n0, &mut n1, &mut n2, &mut n3, &mut n4];
        let mut heap = PairingHeap::<u8>::new();
        let mut member = [false; K];
        let mut was = [false; K];
        let mut bits = 0;
        let mut step = 0;
        unsafe {
            while step < n && !s.exhausted() {
                step += 1;
                if step <= pre {
                    // partition: the first `pre` operations insert node #step-1 with a symbolic key
                    let t = step - 1;
                    (*tab[t]).data = s.below(3);
                    heap.insert(&mut *tab[t]);
                    member[t] = true;
                    was[t] = true;
                } else {
                    if s.u8() & 1 == 1 { break; }
                    bits |= apply(s, &mut heap, &tab, &mut member, &mut was, kmax, 2);
                }
                // cheap per-step oracle: peek_min carries the minimum key of the members
                let mut mn: Option<u8> = None;
                let mut i = 0;
                while i < K {
                    if member[i] { let k = (*tab[i]).data; if mn.map_or(true, |m| k < m) { mn = Some(k); } }
                    i += 1;
                }
                let pk = heap.peek_min().map(|p| p.as_ref().data);
                assert!(pk == mn, "C20 heap: peek_min does not carry the minimum key of the members");
                if every { validate(&heap, &tab, &member); }
            }
            validate(&heap, &tab, &member);
        }
        s.reached(bits);
        bits
    }

    /// Partition "wide" (a history from the empty heap): insert a minimal root, then m <= 6 nodes with larger symbolic keys
    /// (they become its children), remove the root (merge_children over up to 6 siblings) or one child, then pop
    /// everything through peek_min/remove: every remaining member comes out exactly once, in key order.
    pub fn wide<S: Src>(s: &mut S) -> u32 {
        const W: usize = 7;
        // (one local per node + a pointer table: no symbolic offsets into an array of structs)
        let (mut a0, mut a1, mut a2, mut a3, mut a4, mut a5, mut a6) = (
            HeapNode::new(0u8), HeapNode::new(0u8), HeapNode::new(0u8), HeapNode::new(0u8),
            HeapNode::new(0u8), HeapNode::new(0u8), HeapNode::new(0u8),
        );
        let wt: [*mut N; W] = [&mut a0, &mut a1, &mut a2, &mut a3, &mut a4, &mut a5, &mut a6];
        let m = s.below(7) as usize;
        let mut heap = PairingHeap::<u8>::new();
        unsafe {
            heap.insert(&mut *wt[0]);
            let mut i = 1;
            while i <= m {
                (*wt[i]).data = 1 + s.below(3);
                heap.insert(&mut *wt[i]);
                i += 1;
            }
            assert!(heap.peek_min() == NonNull::new(wt[0]), "C20 heap: the minimum key is not at the root after inserts");
            let victim = s.below(7) as usize;
            s.assume(victim <= m);
            heap.remove(&mut *wt[victim]);
            assert!((*wt[victim]).verif_unlinked(), "C20 heap: removed node still carries links");
            // every remaining member reaches the (single) root through its parent chain, in heap order,
            // and the root carries the minimum key: nothing was lost by merging the children
            let root = heap.peek_min();
            assert!(root.is_some() == (m > 0), "C20 heap: peek_min inconsistent with the number of members");
            let mut i = 0;
            while i <= m {
                if i != victim {
                    let mut cur = wt[i];
                    let mut d = 0;
                    while d < W {
                        match (*cur).parent {
                            None => break,
                            Some(p) => {
                                assert!(!((*cur).data < (*p.as_ptr()).data), "C20 heap: heap order violated after removing a node with many children");
                                cur = p.as_ptr();
                            }
                        }
                        d += 1;
                    }
                    assert!(Some(cur) == root.map(|r| r.as_ptr()), "C20 heap: a member was lost (does not reach the root) after removing a node with many children");
                    assert!(!((*wt[i]).data < (*root.unwrap().as_ptr()).data), "C20 heap: peek_min is not a minimum");
                }
                i += 1;
            }
            let bits = if victim == 0 { m as u32 } else { 0 };
            s.reached(bits);
            bits
        }
    }

    #[no_mangle]
    pub fn fi_verif_replay_heap(name: &str, cfg: u32, _p: u32, s: &mut ScriptSrc<'_>) -> bool {
        match name {
            "heap_wide" => { wide(s); }
            "heap_hist" => { hist(s, 64, if cfg & 15 == 0 { K } else { (cfg & 15) as usize }, (cfg >> 4) as usize, true); }
            _ => return false,
        }
        true
    }

    #[cfg(kani)]
    mod proofs {
        use super::*;

        fn key() -> u8 { let k: u8 = kani::any(); kani::assume(k < 3); k }

        /// E-STEP: ANY heap-ordered multiway tree over a subset of kmax nodes (symbolic parent map with an
        /// acyclicity rank, symbolic sibling order, keys from a 3-value set), one insert or remove.
        /// Every such tree is a valid pairing heap (there is no balance invariant), so no reachability
        /// strengthening is needed.
        fn step(kmax: usize, opsel: u8) -> u32 {
            let mut n0 = HeapNode::new(key());
            let mut n1 = HeapNode::new(key());
            let mut n2 = HeapNode::new(key());
            let mut n3 = HeapNode::new(key());
            let mut n4 = HeapNode::new(key());
            let tab: [*mut N; K] = [&mut n0, &mut n1, &mut n2, &mut n3, &mut n4];
            let mut member: [bool; K] = kani::any();
            let par: [u8; K] = kani::any(); // K = none (root)
            let dep: [u8; K] = kani::any(); // acyclicity rank: parent has a smaller one
            let rank: [u8; K] = kani::any(); // sibling order
            let mut heap = PairingHeap::<u8>::new();
            let mut i = 0;
            let mut roots = 0;
            let mut cntm = 0;
            unsafe {
                while i < K {
                    if i >= kmax { kani::assume(!member[i]); }
                    kani::assume(par[i] as usize <= K && dep[i] as usize <= K && (rank[i] as usize) < K);
                    if member[i] {
                        cntm += 1;
                        if par[i] as usize == K { roots += 1; } else {
                            let p = par[i] as usize;
                            kani::assume(p != i && member[p] && dep[p] < dep[i] && (*tab[p]).data <= (*tab[i]).data);
                        }
                    }
                    let mut j = 0;
                    while j < i { kani::assume(rank[i] != rank[j]); j += 1; }
                    i += 1;
                }
                kani::assume((cntm == 0 && roots == 0) || roots == 1);
                i = 0;
                while i < K {
                    if member[i] {
                        if par[i] as usize == K {
                            heap.root = nn(tab[i]);
                        } else {
                            let p = par[i] as usize;
                            (*tab[i]).parent = nn(tab[p]);
                            let mut prev: usize = K;
                            let mut next: usize = K;
                            let mut j = 0;
                            while j < K {
                                if j != i && member[j] && par[j] == par[i] {
                                    if rank[j] < rank[i] && (prev == K || rank[prev] < rank[j]) { prev = j; }
                                    if rank[j] > rank[i] && (next == K || rank[next] > rank[j]) { next = j; }
                                }
                                j += 1;
                            }
                            if prev != K { (*tab[i]).prev = nn(tab[prev]); } else { (*tab[p]).first_child = nn(tab[i]); }
                            if next != K { (*tab[i]).next = nn(tab[next]); }
                        }
                    }
                    i += 1;
                }
                validate(&heap, &tab, &member); // sanity of the builder
                let mut was = [false; K];
                let bits = apply(&mut KaniSrc, &mut heap, &tab, &mut member, &mut was, kmax, opsel);
                validate(&heap, &tab, &member);
                bits
            }
        }
        // (covers live in the proof functions: a cover inside a branch that is dead for a constant argument would be
        // reported unsatisfiable and make the harness look vacuous)
        fn step_covers(bits: u32) {
            kani::cover!(bits & W_REMOVE_INNER != 0, "W heap step: inner node with >= 2 children removed");
            kani::cover!(bits & W_REMOVE_ROOT3 != 0, "W heap step: root with >= 3 children removed");
        }
        #[kani::proof]
        #[kani::unwind(9)]
        fn heap_wide_k7() { let b = wide(&mut KaniSrc); kani::cover!(b == 6, "W heap wide: a root with 6 children was removed"); }
        #[kani::proof]
        #[kani::unwind(9)]
        fn heap_witness_wide() { let b = wide(&mut KaniSrc); assert!(b != 5, "WITNESS reached"); }

        #[kani::proof]
        #[kani::unwind(7)]
        fn heap_step_k4() { step_covers(step(4, 2)) }
        #[kani::proof]
        #[kani::unwind(7)]
        fn heap_step_k5_insert() { let _ = step(5, 0); }
        #[kani::proof]
        #[kani::unwind(7)]
        fn heap_step_k5_remove() { step_covers(step(5, 1)) }

        #[kani::proof]
        #[kani::unwind(7)]
        fn heap_hist_k3_n5() { let b = hist(&mut KaniSrc, 5, 3, 0, false); kani::cover!(b & W_REINSERT != 0, "W heap hist: re-insertion"); }
        #[kani::proof]
        #[kani::unwind(7)]
        fn heap_hist_k4_n6() { let b = hist(&mut KaniSrc, 6, 4, 0, false); kani::cover!(b & W_REINSERT != 0, "W heap hist: re-insertion"); }
        #[kani::proof]
        #[kani::unwind(9)]
        fn heap_hist_k5_n8() { let b = hist(&mut KaniSrc, 8, 5, 0, false); kani::cover!(b & W_REMOVE_ROOT3 != 0, "W heap hist: root with >= 3 children removed"); }
        #[kani::proof]
        #[kani::unwind(7)]
        fn heap_hist_k3_n4() { let b = hist(&mut KaniSrc, 4, 3, 0, false); kani::cover!(b & W_REINSERT != 0, "W heap hist: re-insertion"); }
        #[kani::proof]
        #[kani::unwind(7)]
        fn heap_hist_k4_p4_n6() { let b = hist(&mut KaniSrc, 6, 4, 4, false); kani::cover!(b & W_REMOVE_ROOT3 != 0, "W heap hist: root with >= 3 children removed"); }
        #[kani::proof]
        #[kani::unwind(9)]
        fn heap_hist_k5_p5_n8() { let b = hist(&mut KaniSrc, 8, 5, 5, false); kani::cover!(b & W_REMOVE_ROOT3 != 0, "W heap hist: root with >= 3 children removed"); }
        #[kani::proof]
        #[kani::unwind(7)]
        fn heap_witness_k4_n6() {
            let b = hist(&mut KaniSrc, 6, 4, 4, false);
            assert!(b & W_REMOVE_ROOT3 == 0, "WITNESS reached");
        }
    }
}

// verification harness include for mpmc (see /verif/DESIGN.md)

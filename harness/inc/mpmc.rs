// Included at the end of /repo/src/channel/mpmc.rs under cfg(futures_intrusive_verif).
// MPMC channel harnesses (borrowed flavour): one differential interpreter, oracles for C08, C09, C10,
// C11 (mpmc close semantics), C17 (futures + ChannelStream), C01.

pub(crate) mod verif_mpmc {
    use super::*;
    use crate::verif::common::*;
    use core::mem::ManuallyDrop;
    use futures_core::future::FusedFuture;

    macro_rules! oracle {
        ($p:expr, $mask:expr, $cond:expr, $msg:literal) => {
            if ($p & $mask) != 0 {
                assert!($cond, $msg);
            }
        };
    }

    pub const W_RENDEZVOUS: u32 = 1; // a parked sender's value was taken directly / moved into the buffer by a receive
    pub const W_NOTIFIED_DROPPED: u32 = 2; // a notified receiver was dropped and the wake-up passed on
    pub const W_CLOSE_WITH_PARKED: u32 = 4; // close() while a sender is parked; the sender got its value back
    pub const W_CANCEL_PARKED: u32 = 8; // cancel() of a parked sender returned the value
    pub const W_STREAM_ENDS: u32 = 16; // stream yielded an item and later None

    // prefix partitions (cfg bits 4..7): leading operations fixed (they consume no script byte)
    //  0: none   1: poll send#0   2: poll recv#0   3: poll send#0, poll send#1   4: poll recv#0, poll recv#1
    //  5: poll send#0, poll recv#0   6: poll recv#0, poll send#0
    fn prefix_op(pre: u32, step: usize) -> Option<u8> {
        let tab: [[u8; 2]; 7] = [[255, 255], [0, 255], [4, 255], [0, 2], [4, 6], [0, 4], [4, 0]];
        if (pre as usize) < 7 && step < 2 && tab[pre as usize][step] != 255 { Some(tab[pre as usize][step]) } else { None }
    }

    // alphabet partitions (cfg bits 12..19): bit set = operation kind enabled. A disabled kind is guarded by a
    // constant-false condition, so symbolic execution drops its code: each harness carries only its own alphabet.
    pub const OP_SEND: u32 = 1; // poll send futures
    pub const OP_RECV: u32 = 2; // poll receive futures / stream
    pub const OP_DROP_S: u32 = 4;
    pub const OP_DROP_R: u32 = 8;
    pub const OP_CANCEL: u32 = 16;
    pub const OP_TRY_SEND: u32 = 32;
    pub const OP_TRY_RECV: u32 = 64;
    pub const OP_CLOSE: u32 = 128;
    pub const OP_ALL: u32 = 255;

    /// cfg: bits 0..1 capacity, bits 4..7 prefix partition, bit 8: receive slot #1 is a ChannelStream,
    /// bits 12..19 enabled operation kinds (0 = all).
    pub fn hist<M: RawMutex, A: RingBuf<Item = Tag>, S: Src>(s: &mut S, cfg: u32, cap: usize, n: usize, p: u32) -> u32 {
        #[cfg(not(kani))]
        reset_tags();
        let pre = (cfg >> 4) & 15;
        let with_stream = (cfg >> 8) & 1 == 1;
        let ops = if (cfg >> 12) & 255 == 0 { OP_ALL } else { (cfg >> 12) & 255 };
        let ch = GenericChannel::<M, Tag, A>::with_capacity(cap);
        let (cs0a, cs0b, cs1a, cs1b, cr0a, cr0b, cr1a, cr1b) = (
            WakeCell::new(), WakeCell::new(), WakeCell::new(), WakeCell::new(),
            WakeCell::new(), WakeCell::new(), WakeCell::new(), WakeCell::new(),
        );
        let mut s0 = ManuallyDrop::new(ch.send(Tag(1)));
        let mut s1 = ManuallyDrop::new(ch.send(Tag(2)));
        let mut r0 = ManuallyDrop::new(ch.receive());
        let mut r1 = ManuallyDrop::new(ch.receive());
        let mut st1 = ManuallyDrop::new(ch.stream());
        if (p & P18) != 0 { arm_alloc(); }
        let mut next_tag: u8 = 3;
        // ---- reference model ----
        let mut closed = false;
        let mut buf = [0u8; 2];
        let mut blen = 0usize;
        let mut parked = [0usize; 2];
        let mut plen = 0usize;
        let mut rq = [0usize; 2];
        let mut rqlen = 0usize;
        // send slots: 0 dropped, 1 holds its value & not queued, 2 parked, 3 value accepted (completion not yet observed), 5 terminated
        let mut ss = [1u8; 2];
        let mut stag = [1u8, 2u8];
        let mut spend = [false; 2];
        // receive slots: 0 dropped, 1 not queued, 2 registered, 3 notified, 5 terminated (stream: item delivered)
        let mut rs = [1u8; 2];
        let mut rpend = [false; 2];
        let mut stream_ended = false;
        // wake bookkeeping: index 0,1 send slots; 2,3 receive slots
        let mut lw = [0u8; 4];
        let mut snap = [0u32; 4];
        let mut fresh = [true; 4];
        let mut ever = [false; 4];
        // tags whose ownership went back to the harness (received / handed back): must never be dropped by the crate
        let mut returned = [false; NTAGS];
        let mut bits = 0u32;

        macro_rules! cell_of {
            ($slot:expr, $w:expr) => {
                match ($slot, $w) {
                    (0, 0) => &cs0a, (0, _) => &cs0b,
                    (1, 0) => &cs1a, (1, _) => &cs1b,
                    (2, 0) => &cr0a, (2, _) => &cr0b,
                    (_, 0) => &cr1a, (_, _) => &cr1b,
                }
            };
        }
        // model helper: the oldest registered receiver becomes notified
        macro_rules! wake_oldest_recv {
            () => {
                if rqlen > 0 {
                    let j = rq[0];
                    rq[0] = rq[1];
                    rqlen -= 1;
                    rs[j] = 3;
                }
            };
        }
        // model helper: result of a non-registering receive attempt: Some(tag) | None
        macro_rules! model_take {
            () => {{
                if blen > 0 {
                    let v = buf[0];
                    buf[0] = buf[1];
                    blen -= 1;
                    if plen > 0 {
                        let k = parked[0];
                        parked[0] = parked[1];
                        plen -= 1;
                        buf[blen] = stag[k];
                        blen += 1;
                        ss[k] = 3;
                        bits |= W_RENDEZVOUS;
                    }
                    Some(v)
                } else if plen > 0 {
                    let k = parked[0];
                    parked[0] = parked[1];
                    plen -= 1;
                    ss[k] = 3;
                    bits |= W_RENDEZVOUS;
                    Some(stag[k])
                } else {
                    None
                }
            }};
        }

        let mut step = 0;
        while step < n && !s.exhausted() {
            let op = match prefix_op(pre, step) { Some(o) => o, None => s.below(17) };
            step += 1;
            if (ops & OP_SEND) != 0 && op < 4 {
                // ---------------- poll send slot i with waker w ----------------
                let i = (op / 2) as usize;
                let w = op % 2;
                s.assume(ss[i] != 5);
                s.assume(i == 0 || ever[0]);
                s.assume(!fresh[i] || w == 0);
                ever[i] = true;
                let f = match i { 0 => &mut s0, _ => &mut s1 };
                if ss[i] == 0 {
                    s.assume(next_tag < 12);
                    stag[i] = next_tag;
                    next_tag += 1;
                    *f = ManuallyDrop::new(ch.send(Tag(stag[i])));
                    ss[i] = 1;
                    fresh[i] = true;
                    spend[i] = false;
                    oracle!(p, P17, !f.is_terminated(), "C17 mpmc: fresh send future reports terminated");
                }
                fresh[i] = false;
                let cell = cell_of!(i, w);
                let waker = ManuallyDrop::new(mk_waker(cell));
                let mut cx = Context::from_waker(&waker);
                let r = unsafe { Pin::new_unchecked(&mut **f) }.poll(&mut cx);
                // model
                let exp: u8; // 0 Pending, 1 Ready(Ok), 2 Ready(Err(own tag))
                if ss[i] == 1 {
                    if closed { exp = 2; ss[i] = 5; if spend[i] { bits |= W_CLOSE_WITH_PARKED; } }
                    else if blen < cap { exp = 1; buf[blen] = stag[i]; blen += 1; ss[i] = 5; wake_oldest_recv!(); }
                    else { exp = 0; parked[plen] = i; plen += 1; ss[i] = 2; wake_oldest_recv!(); }
                } else if ss[i] == 2 { exp = 0; } else { exp = 1; ss[i] = 5; }
                match r {
                    Poll::Ready(Ok(())) => {
                        oracle!(p, P09 | P08, exp == 1, "C09 mpmc: a send completed although its value was neither stored in the buffer nor taken by a receiver");
                        spend[i] = false;
                    }
                    Poll::Ready(Err(e)) => {
                        oracle!(p, P11 | P08, exp == 2, "C11 mpmc: a send failed although the channel is open (or completed twice)");
                        oracle!(p, P11 | P08, (e.0).0 == stag[i], "C08 mpmc: a failed send did not hand back the caller's own value");
                        returned[((e.0).0 as usize) % NTAGS] = true;
                        core::mem::forget(e);
                        spend[i] = false;
                    }
                    Poll::Pending => {
                        if closed {
                            oracle!(p, P09 | P10 | P11, false, "C11 mpmc: a send stays pending although the channel is closed");
                        } else {
                            oracle!(p, P09 | P10 | P11, exp == 0, "C09 mpmc: a send stays pending although there is room or its value was taken");
                        }
                        spend[i] = true;
                        lw[i] = w;
                        snap[i] = cell.n();
                    }
                }
            } else if (ops & OP_RECV) != 0 && op >= 4 && op < 8 {
                // ---------------- poll receive slot j with waker w ----------------
                let j = ((op - 4) / 2) as usize;
                let w = op % 2;
                let is_stream = with_stream && j == 1;
                if !is_stream { s.assume(rs[j] != 5); }
                if !with_stream { s.assume(j == 0 || ever[2]); }
                s.assume(!fresh[2 + j] || w == 0);
                ever[2 + j] = true;
                let cell = cell_of!(2 + j, w);
                let waker = ManuallyDrop::new(mk_waker(cell));
                let mut cx = Context::from_waker(&waker);
                let r: Poll<Option<Tag>>;
                if is_stream {
                    s.assume(rs[j] != 0); // the stream itself is not re-created after a drop
                    if rs[j] == 5 && !stream_ended { rs[j] = 1; } // the next item starts a new internal receive
                    r = unsafe { Pin::new_unchecked(&mut *st1) }.poll_next(&mut cx);
                } else {
                    let f = match j { 0 => &mut r0, _ => &mut r1 };
                    if rs[j] == 0 {
                        *f = ManuallyDrop::new(ch.receive());
                        rs[j] = 1;
                        fresh[2 + j] = true;
                        rpend[j] = false;
                        oracle!(p, P17, !f.is_terminated(), "C17 mpmc: fresh receive future reports terminated");
                    }
                    r = unsafe { Pin::new_unchecked(&mut **f) }.poll(&mut cx);
                }
                fresh[2 + j] = false;
                // model
                let exp: Option<Option<u8>>; // None = Pending, Some(None) = Ready(None), Some(Some(t)) = Ready(Some(t))
                if is_stream && stream_ended {
                    exp = Some(None);
                } else if rs[j] == 2 {
                    exp = None;
                } else {
                    match model_take!() {
                        Some(v) => { exp = Some(Some(v)); rs[j] = 5; }
                        None => {
                            if closed { exp = Some(None); rs[j] = 5; if is_stream { stream_ended = true; } }
                            else { exp = None; rq[rqlen] = j; rqlen += 1; rs[j] = 2; }
                        }
                    }
                }
                match r {
                    Poll::Ready(Some(t)) => {
                        oracle!(p, P08 | P09, exp.is_some() && exp.unwrap().is_some(), "C08 mpmc: a receive yielded a value although none is available to it");
                        oracle!(p, P08 | P09, exp == Some(Some(t.0)), "C09 mpmc: a receive yielded a value out of FIFO order (or a value twice)");
                        returned[(t.0 as usize) % NTAGS] = true;
                        core::mem::forget(t);
                        rpend[j] = false;
                        if is_stream { bits |= 0; }
                    }
                    Poll::Ready(None) => {
                        if is_stream {
                            // stream protocol (C17): None exactly when the channel is closed AND drained
                            oracle!(p, P08 | P11 | P17, exp == Some(None), "C11+C17 mpmc stream: ended (None) although the channel is open or an accepted value is still undelivered");
                        } else {
                            oracle!(p, P08 | P11 | P17, exp == Some(None), "C11 mpmc: a receive yielded None although the channel is open or a value is still available");
                        }
                        if is_stream && next_tag > 3 { bits |= W_STREAM_ENDS; }
                        rpend[j] = false;
                    }
                    Poll::Pending => {
                        if exp == Some(None) {
                            oracle!(p, P10 | P08 | P11, false, "C11 mpmc: a receive stays pending although the channel is closed and drained");
                        } else {
                            oracle!(p, P10 | P08 | P11, exp.is_none(), "C10 mpmc: a receive stays pending although a value is available");
                        }
                        rpend[j] = true;
                        lw[2 + j] = w;
                        snap[2 + j] = cell.n();
                    }
                }
            } else if (ops & OP_DROP_S) != 0 && op >= 8 && op < 10 {
                // ---------------- drop send slot i ----------------
                let i = (op - 8) as usize;
                s.assume(ss[i] != 0 && !fresh[i]);
                let f = match i { 0 => &mut s0, _ => &mut s1 };
                if ss[i] == 2 {
                    if plen == 2 && parked[0] == i { parked[0] = parked[1]; }
                    plen -= 1;
                }
                unsafe { ManuallyDrop::drop(f) };
                ss[i] = 0;
                spend[i] = false;
            } else if (ops & OP_DROP_R) != 0 && op >= 10 && op < 12 {
                // ---------------- drop receive slot j ----------------
                let j = (op - 10) as usize;
                s.assume(rs[j] != 0 && !fresh[2 + j]);
                if rs[j] == 2 {
                    if rqlen == 2 && rq[0] == j { rq[0] = rq[1]; }
                    rqlen -= 1;
                } else if rs[j] == 3 {
                    if rqlen > 0 { bits |= W_NOTIFIED_DROPPED; }
                    wake_oldest_recv!();
                }
                if with_stream && j == 1 {
                    unsafe { ManuallyDrop::drop(&mut st1) };
                } else {
                    let f = match j { 0 => &mut r0, _ => &mut r1 };
                    unsafe { ManuallyDrop::drop(f) };
                }
                rs[j] = 0;
                rpend[j] = false;
            } else if (ops & OP_CANCEL) != 0 && op >= 12 && op < 14 {
                // ---------------- cancel send slot i ----------------
                let i = (op - 12) as usize;
                s.assume(ss[i] != 0 && ss[i] != 5);
                let f = match i { 0 => &mut s0, _ => &mut s1 };
                let got = f.cancel();
                let exp = if ss[i] == 1 || ss[i] == 2 { Some(stag[i]) } else { None };
                if ss[i] == 2 {
                    if plen == 2 && parked[0] == i { parked[0] = parked[1]; }
                    plen -= 1;
                    bits |= W_CANCEL_PARKED;
                }
                match got {
                    Some(t) => {
                        oracle!(p, P08, exp == Some(t.0), "C08 mpmc: cancel() returned a value that already left the future (duplicate) or a foreign value");
                        returned[(t.0 as usize) % NTAGS] = true;
                        core::mem::forget(t);
                    }
                    None => { oracle!(p, P08, exp.is_none(), "C08 mpmc: cancel() lost the value that was still in the send future"); }
                }
                ss[i] = 5;
                spend[i] = false;
                fresh[i] = false;
            } else if (ops & OP_TRY_SEND) != 0 && op == 14 {
                // ---------------- try_send ----------------
                s.assume(cap > 0 && next_tag < 12);
                let tag = next_tag;
                next_tag += 1;
                match ch.try_send(Tag(tag)) {
                    Ok(()) => {
                        oracle!(p, P09 | P11, !closed && blen < cap, "C09 mpmc: try_send accepted a value on a full or closed channel");
                        if blen < 2 { buf[blen] = tag; blen += 1; }
                        wake_oldest_recv!();
                    }
                    Err(TrySendError::Full(t)) => {
                        oracle!(p, P09, !closed && blen >= cap, "C09 mpmc: try_send reported Full although there is room or the channel is closed");
                        oracle!(p, P08, t.0 == tag, "C08 mpmc: try_send(Full) did not hand back the caller's own value");
                        returned[(t.0 as usize) % NTAGS] = true;
                        core::mem::forget(t);
                    }
                    Err(TrySendError::Closed(t)) => {
                        oracle!(p, P11, closed, "C11 mpmc: try_send reported Closed on an open channel");
                        oracle!(p, P08 | P11, t.0 == tag, "C08 mpmc: try_send(Closed) did not hand back the caller's own value");
                        returned[(t.0 as usize) % NTAGS] = true;
                        core::mem::forget(t);
                    }
                }
            } else if (ops & OP_TRY_RECV) != 0 && op == 15 {
                // ---------------- try_receive ----------------
                let exp = model_take!();
                match ch.try_receive() {
                    Ok(t) => {
                        oracle!(p, P08 | P09, exp == Some(t.0), "C09 mpmc: try_receive yielded a value out of FIFO order, twice, or none was available");
                        returned[(t.0 as usize) % NTAGS] = true;
                        core::mem::forget(t);
                    }
                    Err(e) => {
                        oracle!(p, P08 | P09, exp.is_none(), "C08 mpmc: try_receive reported an empty channel although a value is available");
                        oracle!(p, P11, e.is_closed() == closed, "C11 mpmc: try_receive reports Closed/Empty inconsistently with close()");
                    }
                }
            } else if (ops & OP_CLOSE) != 0 && op == 16 {
                // ---------------- close ----------------
                let stt = ch.close();
                oracle!(p, P11, stt.is_newly_closed() == !closed, "C11 mpmc: close() status is not NewlyClosed-once / AlreadyClosed-afterwards");
                closed = true;
                if rqlen > 0 { rs[rq[0]] = 1; }
                if rqlen > 1 { rs[rq[1]] = 1; }
                rqlen = 0;
                if plen > 0 { ss[parked[0]] = 1; }
                if plen > 1 { ss[parked[1]] = 1; }
                plen = 0;
            } else {
                s.assume(false); // operation kind not in this harness's alphabet
            }

            oracle!(p, P18, alloc_events() == 0, "C18 mpmc: an operation allocated or freed heap memory");
            // ================= oracles after every operation =================
            let now = [
                if lw[0] == 0 { cs0a.n() } else { cs0b.n() }, if lw[1] == 0 { cs1a.n() } else { cs1b.n() },
                if lw[2] == 0 { cr0a.n() } else { cr0b.n() }, if lw[3] == 0 { cr1a.n() } else { cr1b.n() },
            ];
            let wk = [now[0] > snap[0], now[1] > snap[1], now[2] > snap[2], now[3] > snap[3]];
            if (p & P10) != 0 {
                let avail = blen > 0 || plen > 0;
                if avail && (rpend[0] || rpend[1]) {
                    assert!((rpend[0] && wk[2]) || (rpend[1] && wk[3]),
                        "C10 mpmc: a value is available and receivers are pending, but none of them was woken through its latest waker");
                }
                let mut i = 0;
                while i < 2 {
                    if spend[i] && ss[i] == 3 {
                        assert!(wk[i], "C10 mpmc: a pending sender whose value was accepted was not woken through its latest waker");
                    }
                    i += 1;
                }
            }
            // "every pending future after close() has been woken" is a clause of C10 and of C11
            if (p & (P10 | P11)) != 0 && closed {
                if spend[0] { assert!(wk[0], "C10+C11 mpmc: a sender pending at close() was not woken"); }
                if spend[1] { assert!(wk[1], "C10+C11 mpmc: a sender pending at close() was not woken"); }
                if rpend[0] { assert!(wk[2], "C10+C11 mpmc: a receiver pending at close() was not woken"); }
                if rpend[1] { assert!(wk[3], "C10+C11 mpmc: a receiver pending at close() was not woken"); }
            }
            if (p & P17) != 0 {
                if ss[0] != 0 { assert!(s0.is_terminated() == (ss[0] == 5), "C17 mpmc: send future is_terminated() differs from 'completed or cancelled'"); }
                if ss[1] != 0 { assert!(s1.is_terminated() == (ss[1] == 5), "C17 mpmc: send future is_terminated() differs from 'completed or cancelled'"); }
                if rs[0] != 0 { assert!(r0.is_terminated() == (rs[0] == 5), "C17 mpmc: receive future is_terminated() differs from 'completed'"); }
                if with_stream {
                    if rs[1] != 0 { assert!(st1.is_terminated() == stream_ended, "C17 mpmc: stream is_terminated() differs from 'closed and drained'"); }
                } else if rs[1] != 0 {
                    assert!(r1.is_terminated() == (rs[1] == 5), "C17 mpmc: receive future is_terminated() differs from 'completed'");
                }
            }
        }
        // ================= end of script: everything is dropped, every value exactly once =================
        if (p & P08) != 0 {
            if ss[0] != 0 { unsafe { ManuallyDrop::drop(&mut s0) }; }
            if ss[1] != 0 { unsafe { ManuallyDrop::drop(&mut s1) }; }
            if rs[0] != 0 { unsafe { ManuallyDrop::drop(&mut r0) }; }
            if with_stream { if rs[1] != 0 { unsafe { ManuallyDrop::drop(&mut st1) }; } }
            else if rs[1] != 0 { unsafe { ManuallyDrop::drop(&mut r1) }; }
            drop(ch);
            macro_rules! check_tag { ($t:expr) => {
                if $t < next_tag {
                    let want = if returned[$t as usize] { 0 } else { 1 };
                    assert!(tag_drops($t) == want, "C08 mpmc: a value was dropped twice, leaked, or dropped although it was handed to the caller");
                }
            } }
            check_tag!(1u8); check_tag!(2u8); check_tag!(3u8); check_tag!(4u8); check_tag!(5u8); check_tag!(6u8);
            check_tag!(7u8); check_tag!(8u8); check_tag!(9u8); check_tag!(10u8); check_tag!(11u8);
        } else {
            core::mem::forget(ch);
        }
        s.reached(bits);
        bits
    }

    /// C09 for buffer flavours and payloads where the backing store does not bound the element count by itself
    /// (zero-sized payloads): capacity bound and rendezvous through try_send / try_receive / one send future.
    pub fn zst_capacity<A: RingBuf<Item = ZVal>, S: Src>(s: &mut S, cap: usize, n: usize, p: u32) -> u32 {
        let ch = GenericChannel::<NoopLock, ZVal, A>::with_capacity(cap);
        let mut len = 0usize;
        let mut step = 0;
        while step < n && !s.exhausted() {
            step += 1;
            if s.flag() {
                s.assume(cap > 0); // (try_send is documented as unsupported on unbuffered channels)
                match ch.try_send(ZVal) {
                    Ok(()) => {
                        oracle!(p, P09, len < cap, "C09 mpmc: try_send accepted a value although `capacity` values are buffered and no receiver waits");
                        len += 1;
                    }
                    Err(e) => {
                        oracle!(p, P09, len == cap && e.is_full(), "C09 mpmc: try_send refused a value although the buffer has room");
                        core::mem::forget(e);
                    }
                }
            } else {
                match ch.try_receive() {
                    Ok(v) => {
                        oracle!(p, P09, len > 0, "C09 mpmc: try_receive yielded a value although none was accepted");
                        core::mem::forget(v);
                        len -= 1;
                    }
                    Err(_) => { oracle!(p, P09, len == 0, "C09 mpmc: try_receive found nothing although accepted values are buffered"); }
                }
            }
        }
        // a send future completes at once iff there is room (never on a rendezvous channel without a receiver)
        let cell = WakeCell::new();
        let waker = ManuallyDrop::new(mk_waker(&cell));
        let mut cx = Context::from_waker(&waker);
        let mut f = ManuallyDrop::new(ch.send(ZVal));
        let mut stored = len;
        match unsafe { Pin::new_unchecked(&mut *f) }.poll(&mut cx) {
            Poll::Ready(r) => {
                oracle!(p, P09, len < cap && r.is_ok(), "C09 mpmc: a send completed although its value was neither stored (buffer full / capacity 0) nor taken by a receiver");
                if r.is_ok() { stored += 1; }
                core::mem::forget(r);
            }
            Poll::Pending => { oracle!(p, P09, len == cap, "C09 mpmc: a send stays pending although the buffer has room"); }
        }
        // C08: the values still buffered are dropped exactly once together with the channel (the future - and the value it
        // may still hold - is leaked: dropping it is not the subject here)
        let before = zval_drops();
        drop(ch);
        if (p & P08) != 0 {
            assert!(zval_drops().wrapping_sub(before) == stored as u32, "C08 mpmc: values buffered in the channel were not dropped exactly once with the channel (zero-sized payload with a Drop impl)");
        }
        s.reached(len as u32);
        len as u32
    }

    /// C18 (+ C08): `ChannelState::clear()` - what `Drop for shared::GenericReceiver` runs, beyond close(), when the last
    /// receiver handle goes away - on a channel backed by FixedHeapBuf: discards every buffered value exactly once and never
    /// reaches the allocator. Function-level (the shared handles themselves exhaust memory with a heap-backed buffer).
    #[cfg(feature = "alloc")]
    pub fn clear_noalloc<S: Src>(s: &mut S, p: u32) -> u32 {
        #[cfg(not(kani))]
        reset_tags();
        let ch = GenericChannel::<NoopLock, Tag, crate::buffer::FixedHeapBuf<Tag>>::with_capacity(2);
        let k = s.below(3);
        if k > 0 { core::mem::forget(ch.try_send(Tag(1))); }
        if k > 1 { core::mem::forget(ch.try_send(Tag(2))); }
        if s.flag() { let _ = ch.close(); }
        if (p & P18) != 0 { arm_alloc(); }
        {
            let mut g = ch.inner.lock();
            let _ = g.clear();
        }
        if (p & P18) != 0 {
            assert!(alloc_events() == 0, "C18 mpmc: discarding the buffered values (last shared receiver dropped) allocated or freed heap memory");
            disarm_alloc();
        }
        if (p & (P08 | P11)) != 0 {
            assert!(tag_drops(1) == (k > 0) as u8 && tag_drops(2) == (k > 1) as u8, "C08+C11 mpmc: clear() did not drop every buffered value exactly once");
            assert!(ch.inner.lock().buffer.is_empty(), "C08+C11 mpmc: clear() left values in the buffer");
        }
        core::mem::forget(ch);
        s.reached(k as u32);
        k as u32
    }

    #[no_mangle]
    pub fn fi_verif_replay_mpmc(name: &str, cfg: u32, p: u32, s: &mut ScriptSrc<'_>) -> bool {
        #[cfg(feature = "alloc")]
        if name == "mpmc_clear_noalloc" { clear_noalloc(s, p); return true; }
        let cap = (cfg & 3) as usize;
        match (name, cap) {
            #[cfg(feature = "alloc")]
            ("mpmc_zst_fixedheap", _) => { zst_capacity::<crate::buffer::FixedHeapBuf<ZVal>, _>(s, cap, 64, p); }
            ("mpmc_zst_array", 2) => { zst_capacity::<ArrayBuf<ZVal, [ZVal; 2]>, _>(s, 2, 64, p); }
            #[cfg(feature = "alloc")]
            ("mpmc_zst_growing", _) => { zst_capacity::<crate::buffer::GrowingHeapBuf<ZVal>, _>(s, cap, 64, p); }
            ("mpmc_hist_noop", 0) => { hist::<NoopLock, ArrayBuf<Tag, [Tag; 0]>, _>(s, cfg, 0, 64, p); }
            ("mpmc_hist_noop", 1) => { hist::<NoopLock, ArrayBuf<Tag, [Tag; 1]>, _>(s, cfg, 1, 64, p); }
            ("mpmc_hist_noop", 2) => { hist::<NoopLock, ArrayBuf<Tag, [Tag; 2]>, _>(s, cfg, 2, 64, p); }
            ("mpmc_hist_check", 0) => { hist::<CheckLock, ArrayBuf<Tag, [Tag; 0]>, _>(s, cfg, 0, 64, p); }
            ("mpmc_hist_check", 1) => { hist::<CheckLock, ArrayBuf<Tag, [Tag; 1]>, _>(s, cfg, 1, 64, p); }
            ("mpmc_hist_check", 2) => { hist::<CheckLock, ArrayBuf<Tag, [Tag; 2]>, _>(s, cfg, 2, 64, p); }
            #[cfg(feature = "alloc")]
            ("mpmc_hist_fixedheap", _) => { hist::<NoopLock, crate::buffer::FixedHeapBuf<Tag>, _>(s, cfg, cap, 64, p); }
            _ => return false,
        }
        true
    }


    // =====================================================================
    // E-STEP: one real operation from an arbitrary state satisfying Inv_mpmc (2 send + 2 receive futures).
    //   I1 closed => no registered sender / receiver                                   -> C11
    //   I2 a sender is registered => the buffer is full                                 -> C09
    //   I3 a receiver is registered => #notified receivers >= #registered senders + len -> C10
    //   I4 live un-completed send futures hold their value, completed ones do not       -> C08
    //   I5 queue membership = {registered}, stored waker = latest                       -> C01
    // plus per-operation post-conditions (FIFO head, value conservation, wake-ups through the latest waker).
    // =====================================================================
    #[cfg(kani)]
    pub mod step {
        use super::*;
        type SNode = ListNode<SendWaitQueueEntry<Tag>>;
        type RNode = ListNode<RecvWaitQueueEntry>;
        // send: 0 Unregistered(value inside), 1 Registered(value inside), 2 SendComplete(no value), 3 terminated
        // recv: 0 Unregistered, 1 Registered, 2 Notified, 3 terminated
        fn any_st() -> u8 { let x: u8 = kani::any(); kani::assume(x < 4); x }
        fn obs_s<M>(f: &ChannelSendFuture<'_, M, Tag>) -> u8 {
            if f.channel.is_none() { return 3; }
            match f.wait_node.state { SendPollState::Unregistered => 0, SendPollState::Registered => 1, SendPollState::SendComplete => 2 }
        }
        fn obs_r<M>(f: &ChannelReceiveFuture<'_, M, Tag>) -> u8 {
            if f.channel.is_none() { return 3; }
            match f.wait_node.state { RecvPollState::Unregistered => 0, RecvPollState::Registered => 1, RecvPollState::Notified => 2 }
        }

        /// class: 0 poll send, 1 poll recv, 2 drop/cancel, 3 try_send/try_receive/close, 4 any
        pub fn run<M: RawMutex, A: RingBuf<Item = Tag>>(cap: usize, class: u8, p: u32) {
            let ch = GenericChannel::<M, Tag, A>::with_capacity(cap);
            let (cs0a, cs0b, cs1a, cs1b, cr0a, cr0b, cr1a, cr1b) = (
                WakeCell::new(), WakeCell::new(), WakeCell::new(), WakeCell::new(),
                WakeCell::new(), WakeCell::new(), WakeCell::new(), WakeCell::new(),
            );
            let mut s0 = ManuallyDrop::new(ch.send(Tag(10)));
            let mut s1 = ManuallyDrop::new(ch.send(Tag(11)));
            let mut r0 = ManuallyDrop::new(ch.receive());
            let mut r1 = ManuallyDrop::new(ch.receive());
            let ss = [any_st(), any_st()];
            let rs = [any_st(), any_st()];
            let lws: [bool; 2] = [kani::any(), kani::any()];
            let lwr: [bool; 2] = [kani::any(), kani::any()];
            let closed: bool = kani::any();
            let len: usize = kani::any();
            kani::assume(len <= cap);
            let rot: usize = kani::any(); // ring position of the buffer contents
            kani::assume(rot <= cap);
            let s_first: bool = kani::any(); // s0 is the older registered sender
            let r_first: bool = kani::any();
            let n_regs = (ss[0] == 1) as usize + (ss[1] == 1) as usize;
            let n_regr = (rs[0] == 1) as usize + (rs[1] == 1) as usize;
            let n_notr = (rs[0] == 2) as usize + (rs[1] == 2) as usize;
            // ---- Inv (assumed) ----
            if closed { kani::assume(n_regs == 0 && n_regr == 0); }
            if n_regs > 0 { kani::assume(len == cap); }
            if n_regr > 0 { kani::assume(n_notr >= n_regs + len); }
            macro_rules! setup_s { ($f:ident, $i:expr, $ca:expr, $cb:expr) => { match ss[$i] {
                0 => {}
                1 => { $f.wait_node.state = SendPollState::Registered; $f.wait_node.task = Some(if lws[$i] { mk_waker(&$ca) } else { mk_waker(&$cb) }); }
                2 => { $f.wait_node.state = SendPollState::SendComplete; core::mem::forget($f.wait_node.value.take()); }
                _ => { $f.channel = None; core::mem::forget($f.wait_node.value.take()); }
            } } }
            macro_rules! setup_r { ($f:ident, $i:expr, $ca:expr, $cb:expr) => { match rs[$i] {
                0 => {}
                1 => { $f.wait_node.state = RecvPollState::Registered; $f.wait_node.task = Some(if lwr[$i] { mk_waker(&$ca) } else { mk_waker(&$cb) }); }
                2 => { $f.wait_node.state = RecvPollState::Notified; }
                _ => { $f.channel = None; }
            } } }
            setup_s!(s0, 0, cs0a, cs0b);
            setup_s!(s1, 1, cs1a, cs1b);
            setup_r!(r0, 0, cr0a, cr0b);
            setup_r!(r1, 1, cr1a, cr1b);
            {
                let mut g = ch.inner.lock();
                g.is_closed = closed;
                // rotate the ring, then store tags 20, 21 (oldest first)
                let mut k = 0;
                while k < rot && cap > 0 { g.buffer.push(Tag(99)); core::mem::forget(g.buffer.pop()); k += 1; }
                if len > 0 { g.buffer.push(Tag(20)); }
                if len > 1 { g.buffer.push(Tag(21)); }
                unsafe {
                    if s_first { if ss[0] == 1 { g.send_waiters.add_front(&mut s0.wait_node); } if ss[1] == 1 { g.send_waiters.add_front(&mut s1.wait_node); } }
                    else { if ss[1] == 1 { g.send_waiters.add_front(&mut s1.wait_node); } if ss[0] == 1 { g.send_waiters.add_front(&mut s0.wait_node); } }
                    if r_first { if rs[0] == 1 { g.receive_waiters.add_front(&mut r0.wait_node); } if rs[1] == 1 { g.receive_waiters.add_front(&mut r1.wait_node); } }
                    else { if rs[1] == 1 { g.receive_waiters.add_front(&mut r1.wait_node); } if rs[0] == 1 { g.receive_waiters.add_front(&mut r0.wait_node); } }
                }
            }
            // oldest registered sender / receiver in the pre-state
            let old_s: usize = if ss[0] == 1 && (ss[1] != 1 || s_first) { 0 } else if ss[1] == 1 { 1 } else { 2 };
            let old_r: usize = if rs[0] == 1 && (rs[1] != 1 || r_first) { 0 } else if rs[1] == 1 { 1 } else { 2 };
            let stag = [10u8, 11u8];
            // value inventory before: tags in live send futures + buffer
            let inv_before = (ss[0] <= 1) as usize + (ss[1] <= 1) as usize + len;

            let mut alive_s = [true; 2];
            let mut alive_r = [true; 2];
            let mut polled_s = 2usize;
            let mut polled_r = 2usize;
            let mut polled_w = false;
            let mut got: Option<u8> = None; // a value handed to the caller by this operation (received / handed back)
            let mut created = 0usize; // values newly given to the channel by try_send
            let mut dropped_with_future = 0usize;
            let cls: u8 = if class == 4 { kani::any() } else { class };
            kani::assume(cls < 4);
            let t: usize = kani::any();
            kani::assume(t < 2);
            let sub: u8 = kani::any();
            if cls == 0 {
                kani::assume(ss[t] != 3);
                let f = match t { 0 => &mut s0, _ => &mut s1 };
                let wa: bool = kani::any();
                let cell = match (t, wa) { (0, true) => &cs0a, (0, false) => &cs0b, (_, true) => &cs1a, (_, false) => &cs1b };
                let w = ManuallyDrop::new(mk_waker(cell));
                let mut cx = Context::from_waker(&w);
                let res = unsafe { Pin::new_unchecked(&mut **f) }.poll(&mut cx);
                polled_s = t;
                polled_w = wa;
                match res {
                    Poll::Ready(Ok(())) => {
                        oracle!(p, P09, ss[t] == 2 || (ss[t] == 0 && !closed && len < cap), "C09 mpmc step: a send completed although its value was neither stored nor taken");
                    }
                    Poll::Ready(Err(e)) => {
                        oracle!(p, P11 | P08, ss[t] == 0 && closed && (e.0).0 == stag[t], "C11 mpmc step: a send failed on an open channel or did not hand back its own value");
                        got = Some((e.0).0);
                        core::mem::forget(e);
                    }
                    Poll::Pending => {
                        oracle!(p, P09 | P11, ss[t] == 1 || (ss[t] == 0 && !closed && len == cap), "C09+C11 mpmc step: a send stays pending although there is room, its value was taken, or the channel is closed");
                    }
                }
            } else if cls == 1 {
                kani::assume(rs[t] != 3);
                let f = match t { 0 => &mut r0, _ => &mut r1 };
                let wa: bool = kani::any();
                let cell = match (t, wa) { (0, true) => &cr0a, (0, false) => &cr0b, (_, true) => &cr1a, (_, false) => &cr1b };
                let w = ManuallyDrop::new(mk_waker(cell));
                let mut cx = Context::from_waker(&w);
                let res = unsafe { Pin::new_unchecked(&mut **f) }.poll(&mut cx);
                polled_r = t;
                polled_w = wa;
                let avail = len > 0 || n_regs > 0;
                match res {
                    Poll::Ready(Some(v)) => {
                        oracle!(p, P08 | P09, rs[t] != 1 && avail, "C08 mpmc step: a receive yielded a value although none is available to it");
                        let head = if len > 0 { 20 } else if old_s < 2 { stag[old_s] } else { 0 };
                        oracle!(p, P09, v.0 == head, "C09 mpmc step: a receive did not yield the oldest value");
                        got = Some(v.0);
                        core::mem::forget(v);
                    }
                    Poll::Ready(None) => { oracle!(p, P11 | P08, rs[t] != 1 && closed && !avail, "C11 mpmc step: a receive yielded None although open or a value is available"); }
                    Poll::Pending => { oracle!(p, P10 | P11, rs[t] == 1 || (!avail && !closed), "C10+C11 mpmc step: a receive stays pending although a value is available or the channel is closed"); }
                }
            } else if cls == 2 {
                // drop send / drop recv / cancel send
                kani::assume(sub < 3);
                if sub == 0 {
                    let f = match t { 0 => &mut s0, _ => &mut s1 };
                    if ss[t] <= 1 { dropped_with_future = 1; }
                    unsafe { ManuallyDrop::drop(f) };
                    alive_s[t] = false;
                } else if sub == 1 {
                    let f = match t { 0 => &mut r0, _ => &mut r1 };
                    unsafe { ManuallyDrop::drop(f) };
                    alive_r[t] = false;
                } else {
                    kani::assume(ss[t] != 3);
                    let f = match t { 0 => &mut s0, _ => &mut s1 };
                    match f.cancel() {
                        Some(v) => { oracle!(p, P08, ss[t] <= 1 && v.0 == stag[t], "C08 mpmc step: cancel() returned a value that is not in the future"); got = Some(v.0); core::mem::forget(v); }
                        None => { oracle!(p, P08, ss[t] == 2, "C08 mpmc step: cancel() lost the value that was still in the send future"); }
                    }
                }
            } else {
                kani::assume(sub < 3);
                if sub == 0 {
                    kani::assume(cap > 0);
                    match ch.try_send(Tag(30)) {
                        Ok(()) => { oracle!(p, P09 | P11, !closed && len < cap, "C09 mpmc step: try_send accepted a value on a full or closed channel"); created = 1; }
                        Err(TrySendError::Full(v)) => { oracle!(p, P09 | P08, !closed && len == cap && v.0 == 30, "C09 mpmc step: try_send reported Full wrongly or returned a foreign value"); core::mem::forget(v); }
                        Err(TrySendError::Closed(v)) => { oracle!(p, P11 | P08, closed && v.0 == 30, "C11 mpmc step: try_send reported Closed wrongly or returned a foreign value"); core::mem::forget(v); }
                    }
                } else if sub == 1 {
                    let avail = len > 0 || n_regs > 0;
                    match ch.try_receive() {
                        Ok(v) => {
                            let head = if len > 0 { 20 } else if old_s < 2 { stag[old_s] } else { 0 };
                            oracle!(p, P08 | P09, avail && v.0 == head, "C09 mpmc step: try_receive did not yield the oldest value");
                            got = Some(v.0);
                            core::mem::forget(v);
                        }
                        Err(e) => { oracle!(p, P08 | P11, !avail && e.is_closed() == closed, "C08 mpmc step: try_receive reported empty/closed wrongly"); }
                    }
                } else {
                    let stt = ch.close();
                    oracle!(p, P11, stt.is_newly_closed() == !closed, "C11 mpmc step: close() status wrong");
                }
            }

            // ---- post-state ----
            let ss2 = [obs_s(&s0), obs_s(&s1)];
            let rs2 = [obs_r(&r0), obs_r(&r1)];
            let (closed2, len2) = { let g = ch.inner.lock(); (g.is_closed, g.buffer.len()) };
            let regs2 = (alive_s[0] && ss2[0] == 1) as usize + (alive_s[1] && ss2[1] == 1) as usize;
            let regr2 = (alive_r[0] && rs2[0] == 1) as usize + (alive_r[1] && rs2[1] == 1) as usize;
            let notr2 = (alive_r[0] && rs2[0] == 2) as usize + (alive_r[1] && rs2[1] == 2) as usize;
            // I1
            if closed2 { oracle!(p, P11, regs2 == 0 && regr2 == 0, "C11 mpmc step: a future is still registered on a closed channel"); }
            oracle!(p, P11, closed2 == (closed || (cls == 3 && sub == 2)), "C11 mpmc step: closed flag changed by something else than close()");
            // I2
            oracle!(p, P09, len2 <= cap, "C09 mpmc step: more values buffered than the capacity");
            if regs2 > 0 { oracle!(p, P09, len2 == cap, "C09 mpmc step: a sender is parked although the buffer has room"); }
            // I3 + the C10 statement
            if regr2 > 0 { oracle!(p, P10, notr2 >= regs2 + len2, "C10 mpmc step: fewer notified receivers than available values while receivers are registered"); }
            if (len2 > 0 || regs2 > 0) && (regr2 + notr2) > 0 { oracle!(p, P10, notr2 > 0, "C10 mpmc step: a value is available and receivers are pending, but none is notified"); }
            // newly notified receivers / completed senders were woken through their latest waker
            let cells_sa = [&cs0a, &cs1a]; let cells_sb = [&cs0b, &cs1b];
            let cells_ra = [&cr0a, &cr1a]; let cells_rb = [&cr0b, &cr1b];
            let mut i = 0;
            while i < 2 {
                if alive_r[i] && rs[i] == 1 && rs2[i] != 1 && i != polled_r {
                    let c = if lwr[i] { cells_ra[i] } else { cells_rb[i] };
                    oracle!(p, P10 | P11, c.n() == 1, "C10+C11 mpmc step: a registered receiver was dequeued without being woken through its latest waker");
                }
                if alive_s[i] && ss[i] == 1 && ss2[i] != 1 && i != polled_s && !(cls == 2 && sub == 2 && i == t) {
                    let c = if lws[i] { cells_sa[i] } else { cells_sb[i] };
                    oracle!(p, P10 | P11, c.n() == 1, "C10+C11 mpmc step: a parked sender was dequeued without being woken through its latest waker");
                }
                i += 1;
            }
            // I4 + value conservation
            i = 0;
            let mut inv_after = len2;
            while i < 2 {
                if alive_s[i] {
                    let f = if i == 0 { &s0 } else { &s1 };
                    let has = f.wait_node.value.is_some();
                    oracle!(p, P08, has == (ss2[i] <= 1 && !(cls == 2 && sub == 2 && i == t)), "C08 mpmc step: a send future's value slot disagrees with its state");
                    if has {
                        inv_after += 1;
                        oracle!(p, P08, f.wait_node.value.as_ref().unwrap().0 == stag[i], "C08 mpmc step: a send future holds a foreign value");
                    }
                }
                i += 1;
            }
            oracle!(p, P08, inv_after + (got.is_some() as usize) + dropped_with_future == inv_before + created,
                "C08 mpmc step: the number of values in futures + buffer + handed to the caller is not conserved");
            // FIFO: what is in the buffer now is the old content minus the head plus the new tail
            if (p & P09) != 0 && len2 > 0 {
                let mut g = ch.inner.lock();
                let first = g.buffer.pop();
                let took = got.is_some() && (cls == 1 || (cls == 3 && sub == 1));
                let exp_first = if took {
                    if len > 1 { 21 } else if old_s < 2 { stag[old_s] } else { 255 }
                } else if len > 0 { 20 } else if cls == 0 { stag[t] } else { 30 };
                assert!(first.0 == exp_first, "C09 mpmc step: buffer order differs from FIFO after the operation");
                core::mem::forget(first);
            } else if (p & (P01 | P10)) != 0 {
                // I5 queue membership and stored wakers (the stored-waker part is shared with C10)
                let g = ch.inner.lock();
                let sn: [*const SNode; 2] = [&s0.wait_node, &s1.wait_node];
                let rn: [*const RNode; 2] = [&r0.wait_node, &r1.wait_node];
                if (p & P01) != 0 { assert!(g.send_waiters.verif_len_checked(2) == Some(regs2), "C01 mpmc step: send queue inconsistent or holds a node that is not a live parked sender"); }
                if (p & P01) != 0 { assert!(g.receive_waiters.verif_len_checked(2) == Some(regr2), "C01 mpmc step: receive queue inconsistent or holds a node that is not a live registered receiver"); }
                i = 0;
                while i < 2 {
                    let shs = alive_s[i] && ss2[i] == 1;
                    if (p & P01) != 0 { assert!(g.send_waiters.verif_pos_from_tail(sn[i], 2).is_some() == shs, "C01 mpmc step: send queue membership differs from {alive and parked}"); }
                    if !shs { if (p & P01) != 0 { assert!(unsafe { &*sn[i] }.verif_unlinked(), "C01 mpmc step: a send future outside the queue still carries links"); } }
                    let shr = alive_r[i] && rs2[i] == 1;
                    if (p & P01) != 0 { assert!(g.receive_waiters.verif_pos_from_tail(rn[i], 2).is_some() == shr, "C01 mpmc step: receive queue membership differs from {alive and registered}"); }
                    if !shr { if (p & P01) != 0 { assert!(unsafe { &*rn[i] }.verif_unlinked(), "C01 mpmc step: a receive future outside the queue still carries links"); } }
                    if shs {
                        let lwc: &WakeCell = if i == polled_s { if polled_w { cells_sa[i] } else { cells_sb[i] } } else if lws[i] { cells_sa[i] } else { cells_sb[i] };
                        let ok = match &unsafe { &*sn[i] }.task { Some(w) => w.will_wake(&ManuallyDrop::new(mk_waker(lwc))), None => false };
                        if (p & P01) != 0 { assert!(ok, "C01 mpmc step: parked sender does not store the waker of its latest poll"); }
                        if (p & P10) != 0 { assert!(ok, "C10 mpmc step: parked sender does not store the waker of its latest poll (it would be woken through a stale waker)"); }
                    }
                    if shr {
                        let lwc: &WakeCell = if i == polled_r { if polled_w { cells_ra[i] } else { cells_rb[i] } } else if lwr[i] { cells_ra[i] } else { cells_rb[i] };
                        let ok = match &unsafe { &*rn[i] }.task { Some(w) => w.will_wake(&ManuallyDrop::new(mk_waker(lwc))), None => false };
                        if (p & P01) != 0 { assert!(ok, "C01 mpmc step: registered receiver does not store the waker of its latest poll"); }
                        if (p & P10) != 0 { assert!(ok, "C10 mpmc step: registered receiver does not store the waker of its latest poll (it would be woken through a stale waker)"); }
                    }
                    i += 1;
                }
            }
            if (p & P17) != 0 {
                if alive_s[0] { assert!(s0.is_terminated() == (ss2[0] == 3), "C17 mpmc step: send future is_terminated() wrong"); }
                if alive_s[1] { assert!(s1.is_terminated() == (ss2[1] == 3), "C17 mpmc step: send future is_terminated() wrong"); }
                if alive_r[0] { assert!(r0.is_terminated() == (rs2[0] == 3), "C17 mpmc step: receive future is_terminated() wrong"); }
                if alive_r[1] { assert!(r1.is_terminated() == (rs2[1] == 3), "C17 mpmc step: receive future is_terminated() wrong"); }
                if polled_s < 2 { assert!((ss2[polled_s] == 3) == (got.is_some() || (ss[polled_s] == 2 || (ss[polled_s] == 0 && !closed && len < cap))), "C17 mpmc step: a send future terminated without completing (or vice versa)"); }
                if cls == 2 && sub == 2 {
                    let f = if t == 0 { &s0 } else { &s1 };
                    assert!(f.is_terminated(), "C17 mpmc step: a send future is not terminated after cancel()");
                }
            }
            core::mem::forget(ch);
        }
    }

    #[cfg(kani)]
    mod proofs {
        use super::*;
        #[kani::proof]
        #[kani::unwind(4)]
        #[kani::stub(alloc::alloc::alloc, crate::verif::common::stub_alloc)]
        #[kani::stub(alloc::alloc::dealloc, crate::verif::common::stub_dealloc)]
        #[kani::stub(alloc::alloc::realloc, crate::verif::common::stub_realloc)]
        #[kani::stub(alloc::fmt::format, crate::verif::common::stub_format)]
        fn clear_noalloc_c18() { let k = clear_noalloc(&mut KaniSrc, P18 | P08); kani::cover!(k == 2, "W clear: two values buffered"); }
        #[kani::proof]
        #[kani::unwind(4)]
        fn zst_fixedheap_c0() { let _ = zst_capacity::<crate::buffer::FixedHeapBuf<ZVal>, _>(&mut KaniSrc, 0, 2, P09); }
        #[kani::proof]
        #[kani::unwind(5)]
        fn zst_fixedheap_c2() { let _ = zst_capacity::<crate::buffer::FixedHeapBuf<ZVal>, _>(&mut KaniSrc, 2, 4, P09); }
        #[kani::proof]
        #[kani::unwind(5)]
        fn zst_array_c2() { let _ = zst_capacity::<ArrayBuf<ZVal, [ZVal; 2]>, _>(&mut KaniSrc, 2, 4, P09); }
        #[kani::proof]
        #[kani::unwind(5)]
        fn zst_array_c2_c08() { let n = zst_capacity::<ArrayBuf<ZVal, [ZVal; 2]>, _>(&mut KaniSrc, 2, 3, P08); kani::cover!(n == 2, "W zst: two values buffered at the drop"); }
        #[kani::proof]
        #[kani::unwind(5)]
        fn zst_fixedheap_c2_c08() { let _ = zst_capacity::<crate::buffer::FixedHeapBuf<ZVal>, _>(&mut KaniSrc, 2, 3, P08); }
        #[kani::proof]
        #[kani::unwind(4)]
        fn zst_growing_c0() { let _ = zst_capacity::<crate::buffer::GrowingHeapBuf<ZVal>, _>(&mut KaniSrc, 0, 2, P09); }
        #[kani::proof]
        #[kani::unwind(5)]
        fn zst_growing_c2() { let _ = zst_capacity::<crate::buffer::GrowingHeapBuf<ZVal>, _>(&mut KaniSrc, 2, 4, P09); }
        #[kani::proof]
        #[kani::unwind(4)]
        fn repoll_panics_send() {
            let ch = GenericChannel::<NoopLock, Tag, ArrayBuf<Tag, [Tag; 1]>>::new();
            // both completion paths: Ok(()) on an open channel with room, Err(own value) on a closed one
            if kani::any() { let _ = ch.close(); }
            repoll_after_ready(ch.send(Tag(1)));
        }
        #[kani::proof]
        #[kani::unwind(4)]
        fn repoll_panics_receive() {
            let ch = GenericChannel::<NoopLock, Tag, ArrayBuf<Tag, [Tag; 1]>>::new();
            // both completion paths: Some(value), and None on a closed and drained channel
            let sent: bool = kani::any();
            let closed: bool = kani::any();
            kani::assume(sent || closed);
            if sent { core::mem::forget(ch.try_send(Tag(1))); }
            if closed { let _ = ch.close(); }
            repoll_after_ready(ch.receive());
        }
        #[kani::proof]
        #[kani::unwind(6)]
        #[kani::stub(alloc::alloc::alloc, crate::verif::common::stub_alloc)]
        #[kani::stub(alloc::alloc::dealloc, crate::verif::common::stub_dealloc)]
        #[kani::stub(alloc::alloc::realloc, crate::verif::common::stub_realloc)]
        #[kani::stub(alloc::fmt::format, crate::verif::common::stub_format)]
        fn hist_c18_c1_sr_p3_n5() { let _ = hist::<NoopLock, ArrayBuf<Tag, [Tag; 1]>, _>(&mut KaniSrc, 1 | (3 << 4) | ((OP_SEND | OP_RECV | OP_DROP_S | OP_DROP_R) << 12), 1, 5, P18); }
        #[kani::proof]
        #[kani::unwind(6)]
        #[kani::stub(alloc::alloc::alloc, crate::verif::common::stub_alloc)]
        #[kani::stub(alloc::alloc::dealloc, crate::verif::common::stub_dealloc)]
        #[kani::stub(alloc::alloc::realloc, crate::verif::common::stub_realloc)]
        #[kani::stub(alloc::fmt::format, crate::verif::common::stub_format)]
        fn hist_c18_c1_sr_p5_n5() { let _ = hist::<NoopLock, ArrayBuf<Tag, [Tag; 1]>, _>(&mut KaniSrc, 1 | (5 << 4) | ((OP_SEND | OP_RECV | OP_DROP_S | OP_DROP_R) << 12), 1, 5, P18); }
        #[kani::proof]
        #[kani::unwind(6)]
        #[kani::stub(alloc::alloc::alloc, crate::verif::common::stub_alloc)]
        #[kani::stub(alloc::alloc::dealloc, crate::verif::common::stub_dealloc)]
        #[kani::stub(alloc::alloc::realloc, crate::verif::common::stub_realloc)]
        #[kani::stub(alloc::fmt::format, crate::verif::common::stub_format)]
        fn hist_c18_c0_cl_p3_n5() { let _ = hist::<NoopLock, ArrayBuf<Tag, [Tag; 0]>, _>(&mut KaniSrc, 0 | (3 << 4) | ((OP_SEND | OP_RECV | OP_CLOSE | OP_DROP_R) << 12), 0, 5, P18); }
        #[kani::proof]
        #[kani::unwind(5)]
        #[kani::stub(alloc::alloc::alloc, crate::verif::common::stub_alloc)]
        #[kani::stub(alloc::alloc::dealloc, crate::verif::common::stub_dealloc)]
        #[kani::stub(alloc::alloc::realloc, crate::verif::common::stub_realloc)]
        #[kani::stub(alloc::fmt::format, crate::verif::common::stub_format)]
        fn hist_c18_c2_tr_p0_n4() { let _ = hist::<NoopLock, ArrayBuf<Tag, [Tag; 2]>, _>(&mut KaniSrc, 2 | ((OP_SEND | OP_RECV | OP_TRY_SEND | OP_TRY_RECV) << 12), 2, 4, P18); }
        type B0 = ArrayBuf<Tag, [Tag; 0]>;
        type B1 = ArrayBuf<Tag, [Tag; 1]>;
        type B2 = ArrayBuf<Tag, [Tag; 2]>;

        macro_rules! hist_proof {
            ($name:ident, $lock:ty, $buf:ty, $cap:expr, $pre:expr, $stream:expr, $ops:expr, $n:expr, $p:expr, $unw:expr) => {
                #[kani::proof]
                #[kani::unwind($unw)]
                fn $name() {
                    let _bits = hist::<$lock, $buf, _>(&mut KaniSrc, $cap | ($pre << 4) | ($stream << 8) | (($ops) << 12), $cap, $n, $p);
                    kani::cover!(true, "W mpmc hist: the end of the script is reachable (assumptions are satisfiable)");
                }
            };
        }
        include!(concat!(env!("FI_VERIF_INC"), "/mpmc_proofs.rs"));

        macro_rules! step_proof {
            ($name:ident, $lock:ty, $buf:ty, $cap:expr, $class:expr, $p:expr) => {
                #[kani::proof]
                #[kani::unwind(5)]
                fn $name() { step::run::<$lock, $buf>($cap, $class, $p) }
            };
        }
        include!(concat!(env!("FI_VERIF_INC"), "/mpmc_step_proofs.rs"));

        #[kani::proof]
        #[kani::unwind(7)]
        fn witness_rendezvous_c0() {
            let bits = hist::<NoopLock, B0, _>(&mut KaniSrc, 0 | (5 << 4) | ((OP_SEND | OP_RECV) << 12), 0, 4, 0);
            assert!(bits & W_RENDEZVOUS == 0, "WITNESS reached");
        }
        #[kani::proof]
        #[kani::unwind(7)]
        fn witness_notified_dropped_c1() {
            let bits = hist::<NoopLock, B1, _>(&mut KaniSrc, 1 | (4 << 4) | ((OP_SEND | OP_RECV | OP_DROP_R | OP_DROP_S) << 12), 1, 4, 0);
            assert!(bits & W_NOTIFIED_DROPPED == 0, "WITNESS reached");
        }
        #[kani::proof]
        #[kani::unwind(7)]
        fn witness_close_parked_c1() {
            let bits = hist::<NoopLock, B1, _>(&mut KaniSrc, 1 | (3 << 4) | ((OP_SEND | OP_RECV | OP_CLOSE) << 12), 1, 5, 0);
            assert!(bits & W_CLOSE_WITH_PARKED == 0, "WITNESS reached");
        }
        #[kani::proof]
        #[kani::unwind(7)]
        fn witness_stream_c1() {
            let bits = hist::<NoopLock, B1, _>(&mut KaniSrc, 1 | (1 << 4) | (1 << 8) | ((OP_SEND | OP_RECV | OP_CLOSE) << 12), 1, 5, 0);
            assert!(bits & W_STREAM_ENDS == 0, "WITNESS reached");
        }
    }
}

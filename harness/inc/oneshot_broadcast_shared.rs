// verification harness include for oneshot_broadcast_shared (see /verif/DESIGN.md)

// Included inside `pub mod verif` (lib.rs hook). C11, shared-handle lifecycle, public API only:
// a shared channel closes implicitly exactly when its last sender handle or its last receiver handle is dropped,
// never while a handle of each side is still alive. Observed through a registered receive future that
// outlives all handles (it also keeps the Arc alive).

pub mod life {
    use super::common::*;
    use core::future::Future;
    use core::mem::ManuallyDrop;
    use core::pin::Pin;
    use core::task::{Context, Poll};
    use futures_core::future::FusedFuture;

    pub trait Flavour {
        type Tx;
        type Rx;
        type Fut: Future + FusedFuture;
        const TX_CLONE: bool;
        const RX_CLONE: bool;
        fn mk() -> (Self::Tx, Self::Rx);
        fn clone_tx(t: &Self::Tx) -> Self::Tx;
        fn clone_rx(r: &Self::Rx) -> Self::Rx;
        fn observe(r: &Self::Rx) -> Self::Fut;
        fn is_none(o: &<Self::Fut as Future>::Output) -> bool;
        fn forget_output(o: <Self::Fut as Future>::Output) { core::mem::forget(o) }
        /// sends Tag(7) through the handle; true if it was accepted
        fn send7(t: &Self::Tx) -> bool;
        /// the tag inside a Some(..) output
        fn tag_of(o: &<Self::Fut as Future>::Output) -> Option<u8>;
    }

    pub const W_DROP_NONLAST_RX: u32 = 1; // a receiver handle was dropped while another one is alive
    pub const W_DROP_NONLAST_TX: u32 = 2;
    pub const W_CLOSED_BY_LAST: u32 = 4; // the last handle of a side was dropped after a clone/drop sequence

    pub fn hist<L: Flavour, S: Src>(s: &mut S, n: usize, p: u32) -> u32 {
        let (tx, rx) = L::mk();
        let cell = WakeCell::new();
        // the observer: a receive registered before anything else happens
        let mut obs = ManuallyDrop::new(L::observe(&rx));
        let waker = ManuallyDrop::new(mk_waker(&cell));
        let mut cx = Context::from_waker(&waker);
        match unsafe { Pin::new_unchecked(&mut *obs) }.poll(&mut cx) {
            Poll::Pending => {}
            Poll::Ready(o) => { L::forget_output(o); assert!(false, "C11 lifecycle: a receive on a fresh open channel completed"); }
        }
        let mut t0: ManuallyDrop<Option<L::Tx>> = ManuallyDrop::new(Some(tx));
        let mut t1: ManuallyDrop<Option<L::Tx>> = ManuallyDrop::new(None);
        let mut r0: ManuallyDrop<Option<L::Rx>> = ManuallyDrop::new(Some(rx));
        let mut r1: ManuallyDrop<Option<L::Rx>> = ManuallyDrop::new(None);
        let mut ta = [true, false];
        let mut ra = [true, false];
        let mut closed = false;
        let mut bits = 0u32;
        let mut step = 0;
        if (p & P18) != 0 { arm_alloc(); }
        while step < n && !s.exhausted() && !closed {
            step += 1;
            let op = s.below(4);
            let j = s.below(2) as usize;
            let ntx = ta[0] as u8 + ta[1] as u8;
            let nrx = ra[0] as u8 + ra[1] as u8;
            if op == 0 {
                // clone a sender handle into the free slot j from the lowest live one
                s.assume(L::TX_CLONE && !ta[j] && ntx > 0);
                let src = if ta[0] { &t0 } else { &t1 };
                let c = L::clone_tx((**src).as_ref().unwrap());
                let dst = match j { 0 => &mut t0, _ => &mut t1 };
                unsafe { core::ptr::write(&mut **dst, Some(c)) };
                ta[j] = true;
            } else if op == 1 {
                s.assume(L::RX_CLONE && !ra[j] && nrx > 0);
                let src = if ra[0] { &r0 } else { &r1 };
                let c = L::clone_rx((**src).as_ref().unwrap());
                let dst = match j { 0 => &mut r0, _ => &mut r1 };
                unsafe { core::ptr::write(&mut **dst, Some(c)) };
                ra[j] = true;
            } else if op == 2 {
                s.assume(ta[j]);
                let slot = match j { 0 => &mut t0, _ => &mut t1 };
                let h = unsafe { core::ptr::read(&**slot) };
                unsafe { core::ptr::write(&mut **slot, None) };
                drop(h); // the real Drop of the sender handle
                ta[j] = false;
                if ntx > 1 { bits |= W_DROP_NONLAST_TX; } else if step > 1 { bits |= W_CLOSED_BY_LAST; }
            } else {
                s.assume(ra[j]);
                let slot = match j { 0 => &mut r0, _ => &mut r1 };
                let h = unsafe { core::ptr::read(&**slot) };
                unsafe { core::ptr::write(&mut **slot, None) };
                drop(h);
                ra[j] = false;
                if nrx > 1 { bits |= W_DROP_NONLAST_RX; } else if step > 1 { bits |= W_CLOSED_BY_LAST; }
            }
            let expect_closed = !(ta[0] || ta[1]) || !(ra[0] || ra[1]);
            // observe: woken <=> closed; a re-poll completes with None <=> closed
            // the implicit close by the last handle is C11's clause; "a receiver pending at the close is woken and resolves
            // to None" is also a clause of C12 (oneshot flavours) and C13 (state broadcast): the oracle is owned by all three
            if (p & (P11 | P12 | P13)) != 0 {
                assert!((cell.n() > 0) == expect_closed,
                    "C11+C12+C13 lifecycle: a pending receive was woken although a handle of each side is alive, or not woken when the last handle of a side was dropped");
            }
            match unsafe { Pin::new_unchecked(&mut *obs) }.poll(&mut cx) {
                Poll::Pending => {
                    if (p & (P11 | P12 | P13)) != 0 { assert!(!expect_closed, "C11+C12+C13 lifecycle: the channel stayed open (a pending receive does not resolve) after the last handle of a side was dropped"); }
                }
                Poll::Ready(o) => {
                    let none = L::is_none(&o);
                    L::forget_output(o);
                    if (p & (P11 | P12 | P13)) != 0 {
                        assert!(expect_closed && none, "C11+C12+C13 lifecycle: the channel closed although a sender handle and a receiver handle are still alive");
                    }
                    closed = true;
                }
            }
            if (p & P18) != 0 {
                assert!(alloc_events() == 0, "C18 shared channel: cloning/dropping a handle or polling allocated or freed heap memory while the channel state is still referenced");
            }
            if (p & P17) != 0 {
                assert!(obs.is_terminated() == closed, "C17 lifecycle: is_terminated() of a shared receive future differs from 'completed'");
            }
        }
        s.reached(bits);
        bits
    }

    // ---- flavours ----
    pub struct Mpmc<M>(core::marker::PhantomData<M>);
    type Buf1 = crate::buffer::ArrayBuf<Tag, [Tag; 1]>;
    impl<M: lock_api::RawMutex + 'static> Flavour for Mpmc<M> {
        type Tx = crate::channel::shared::GenericSender<M, Tag, Buf1>;
        type Rx = crate::channel::shared::GenericReceiver<M, Tag, Buf1>;
        type Fut = crate::channel::shared::ChannelReceiveFuture<M, Tag>;
        const TX_CLONE: bool = true;
        const RX_CLONE: bool = true;
        fn mk() -> (Self::Tx, Self::Rx) { crate::channel::shared::generic_channel::<M, Tag, Buf1>(1) }
        fn clone_tx(t: &Self::Tx) -> Self::Tx { t.clone() }
        fn clone_rx(r: &Self::Rx) -> Self::Rx { r.clone() }
        fn observe(r: &Self::Rx) -> Self::Fut { r.receive() }
        fn is_none(o: &Option<Tag>) -> bool { o.is_none() }
        fn send7(t: &Self::Tx) -> bool { match t.try_send(Tag(7)) { Ok(()) => true, Err(e) => { core::mem::forget(e); false } } }
        fn tag_of(o: &Option<Tag>) -> Option<u8> { o.as_ref().map(|t| t.0) }
    }
    pub struct Oneshot<M>(core::marker::PhantomData<M>);
    impl<M: lock_api::RawMutex + 'static> Flavour for Oneshot<M> {
        type Tx = crate::channel::shared::GenericOneshotSender<M, Tag>;
        type Rx = crate::channel::shared::GenericOneshotReceiver<M, Tag>;
        type Fut = crate::channel::shared::ChannelReceiveFuture<M, Tag>;
        const TX_CLONE: bool = false;
        const RX_CLONE: bool = false;
        fn mk() -> (Self::Tx, Self::Rx) { crate::channel::shared::generic_oneshot_channel::<M, Tag>() }
        fn clone_tx(_t: &Self::Tx) -> Self::Tx { unreachable!() }
        fn clone_rx(_r: &Self::Rx) -> Self::Rx { unreachable!() }
        fn observe(r: &Self::Rx) -> Self::Fut { r.receive() }
        fn is_none(o: &Option<Tag>) -> bool { o.is_none() }
        fn send7(t: &Self::Tx) -> bool { match t.send(Tag(7)) { Ok(()) => true, Err(e) => { core::mem::forget(e); false } } }
        fn tag_of(o: &Option<Tag>) -> Option<u8> { o.as_ref().map(|t| t.0) }
    }
    pub struct OneshotBc<M>(core::marker::PhantomData<M>);
    impl<M: lock_api::RawMutex + 'static> Flavour for OneshotBc<M> {
        type Tx = crate::channel::shared::GenericOneshotBroadcastSender<M, Tag>;
        type Rx = crate::channel::shared::GenericOneshotBroadcastReceiver<M, Tag>;
        type Fut = crate::channel::shared::ChannelReceiveFuture<M, Tag>;
        const TX_CLONE: bool = false;
        const RX_CLONE: bool = true;
        fn mk() -> (Self::Tx, Self::Rx) { crate::channel::shared::generic_oneshot_broadcast_channel::<M, Tag>() }
        fn clone_tx(_t: &Self::Tx) -> Self::Tx { unreachable!() }
        fn clone_rx(r: &Self::Rx) -> Self::Rx { r.clone() }
        fn observe(r: &Self::Rx) -> Self::Fut { r.receive() }
        fn is_none(o: &Option<Tag>) -> bool { o.is_none() }
        fn send7(t: &Self::Tx) -> bool { match t.send(Tag(7)) { Ok(()) => true, Err(e) => { core::mem::forget(e); false } } }
        fn tag_of(o: &Option<Tag>) -> Option<u8> { o.as_ref().map(|t| t.0) }
    }
    pub struct State<M>(core::marker::PhantomData<M>);
    impl<M: lock_api::RawMutex + 'static> Flavour for State<M> {
        type Tx = crate::channel::shared::GenericStateSender<M, Tag>;
        type Rx = crate::channel::shared::GenericStateReceiver<M, Tag>;
        type Fut = crate::channel::shared::StateReceiveFuture<M, Tag>;
        const TX_CLONE: bool = true;
        const RX_CLONE: bool = true;
        fn mk() -> (Self::Tx, Self::Rx) { crate::channel::shared::generic_state_broadcast_channel::<M, Tag>() }
        fn clone_tx(t: &Self::Tx) -> Self::Tx { t.clone() }
        fn clone_rx(r: &Self::Rx) -> Self::Rx { r.clone() }
        fn observe(r: &Self::Rx) -> Self::Fut { r.receive(crate::channel::StateId::new()) }
        fn is_none(o: &Option<(crate::channel::StateId, Tag)>) -> bool { o.is_none() }
        fn send7(t: &Self::Tx) -> bool { match t.send(Tag(7)) { Ok(()) => true, Err(e) => { core::mem::forget(e); false } } }
        fn tag_of(o: &Option<(crate::channel::StateId, Tag)>) -> Option<u8> { o.as_ref().map(|x| (x.1).0) }
    }

    /// C11, mpmc only: dropping the LAST receiver handle discards buffered values immediately, also when the channel
    /// was closed before (explicitly or by the last sender going away) and a sender handle keeps the state alive.
    /// Public API only, no futures: create(capacity 2), k try_sends, optional clone of the receiver, optional explicit
    /// close() from either side, then drop the receiver handles in a symbolic order.
    pub type B2 = crate::buffer::ArrayBuf<Tag, [Tag; 2]>;
    pub fn mpmc_discard<M: lock_api::RawMutex + 'static, B: crate::buffer::RingBuf<Item = Tag> + 'static, S: Src>(s: &mut S, p: u32) -> u32 {
        #[cfg(not(kani))]
        reset_tags();
        let (tx, rx) = crate::channel::shared::generic_channel::<M, Tag, B>(2);
        let k = s.below(3);
        if k > 0 { core::mem::forget(tx.try_send(Tag(1))); }
        if k > 1 { core::mem::forget(tx.try_send(Tag(2))); }
        let cloned = s.flag();
        let rx2 = if cloned { Some(rx.clone()) } else { None };
        let closer = s.below(3); // 0 nobody, 1 sender side, 2 receiver side
        if closer == 1 { let _ = tx.close(); } else if closer == 2 { let _ = rx.close(); }
        let first = s.flag(); // which receiver handle goes first
        if (p & P18) != 0 { arm_alloc(); }
        if first { drop(rx); } else if let Some(r) = rx2 { drop(r); core::mem::forget(rx); } else { drop(rx); }
        // after the first drop: values must still be there iff another receiver handle is alive
        let other_alive = cloned;
        if (p & P08) != 0 && other_alive {
            assert!(tag_drops(1) == 0 && tag_drops(2) == 0, "C08 shared mpmc: buffered values were discarded while a receiver handle can still reach them");
        }
        if (p & P11) != 0 {
            if other_alive {
                assert!(tag_drops(1) == 0 && tag_drops(2) == 0, "C11 mpmc: buffered values were discarded although a receiver handle is still alive");
            } else {
                assert!(tag_drops(1) == (k > 0) as u8 && tag_drops(2) == (k > 1) as u8,
                    "C11 mpmc: dropping the last receiver did not discard the buffered values immediately (a sender handle is still alive)");
                // and the channel is closed for the sender
                match tx.try_send(Tag(3)) {
                    Err(crate::channel::TrySendError::Closed(t)) => core::mem::forget(t),
                    Ok(()) => assert!(false, "C11 mpmc: the channel stayed open after the last receiver handle was dropped"),
                    Err(crate::channel::TrySendError::Full(t)) => { core::mem::forget(t); assert!(false, "C11 mpmc: the channel stayed open after the last receiver handle was dropped"); }
                }
            }
        }
        if (p & P18) != 0 { assert!(alloc_events() == 0, "C18 shared mpmc: dropping a receiver handle allocated or freed heap memory while a sender still references the state"); }
        let bits = (k as u32) | ((cloned as u32) << 2) | ((closer as u32) << 3);
        core::mem::forget(tx);
        s.reached(bits);
        bits
    }

    /// Shared (Arc) mpmc channel, capacity 1, one send slot + one receive slot through the SHARED futures
    /// (`channel::shared::ChannelSendFuture` / `ChannelReceiveFuture`, which take their Arc handle out for every poll and
    /// must put it back on Pending): differential history against the same reference model as the borrowed interpreter.
    pub fn shared_mpmc<M: lock_api::RawMutex + 'static, S: Src>(s: &mut S, n: usize, p: u32) -> u32 {
        #[cfg(not(kani))]
        reset_tags();
        type B1 = crate::buffer::ArrayBuf<Tag, [Tag; 1]>;
        let (tx, rx) = crate::channel::shared::generic_channel::<M, Tag, B1>(1);
        let (csa, csb, cra, crb) = (WakeCell::new(), WakeCell::new(), WakeCell::new(), WakeCell::new());
        let mut sf = ManuallyDrop::new(tx.send(Tag(1)));
        let mut rf = ManuallyDrop::new(rx.receive());
        let mut next_tag: u8 = 2;
        // model
        let mut closed = false;
        let mut buf: Option<u8> = None;
        // send slot: 0 dropped, 1 holds value & not queued, 2 parked, 3 value accepted (not yet observed), 5 terminated
        let mut ss = 1u8;
        let mut stag = 1u8;
        let mut spend = false;
        // recv slot: 0 dropped, 1 not queued, 2 registered, 3 notified, 5 terminated
        let mut rs = 1u8;
        let mut rpend = false;
        let mut lw = [0u8; 2];
        let mut snap = [0u32; 2];
        let mut fresh = [true; 2];
        let mut bits = 0u32;
        if (p & P18) != 0 { arm_alloc(); }
        let mut step = 0;
        while step < n && !s.exhausted() {
            step += 1;
            let op = s.below(9);
            if op < 2 {
                // poll the send future
                let w = op;
                s.assume(ss != 5);
                s.assume(!fresh[0] || w == 0);
                if ss == 0 {
                    s.assume(next_tag < 6);
                    stag = next_tag;
                    next_tag += 1;
                    *sf = tx.send(Tag(stag));
                    ss = 1;
                    spend = false;
                    if (p & P17) != 0 { assert!(!sf.is_terminated(), "C17 shared mpmc: fresh send future reports terminated"); }
                }
                fresh[0] = false;
                let cell = if w == 0 { &csa } else { &csb };
                let waker = ManuallyDrop::new(mk_waker(cell));
                let mut cx = Context::from_waker(&waker);
                let r = unsafe { Pin::new_unchecked(&mut *sf) }.poll(&mut cx);
                let exp: u8;
                if ss == 1 {
                    if closed { exp = 2; ss = 5; }
                    else if buf.is_none() { exp = 1; buf = Some(stag); ss = 5; if rs == 2 { rs = 3; } }
                    else { exp = 0; ss = 2; if rs == 2 { rs = 3; } }
                } else if ss == 2 { exp = 0; } else { exp = 1; ss = 5; }
                match r {
                    Poll::Ready(Ok(())) => { if (p & (P08 | P09)) != 0 { assert!(exp == 1, "C09 shared mpmc: a send completed although its value was neither stored nor taken"); } spend = false; }
                    Poll::Ready(Err(e)) => {
                        if (p & (P08 | P11)) != 0 { assert!(exp == 2 && (e.0).0 == stag, "C08 shared mpmc: a send failed on an open channel or did not hand back its own value"); }
                        core::mem::forget(e);
                        spend = false;
                    }
                    Poll::Pending => {
                        if (p & (P09 | P10)) != 0 { assert!(exp == 0, "C09 shared mpmc: a send stays pending although there is room, its value was taken, or the channel is closed"); }
                        spend = true; lw[0] = w; snap[0] = cell.n();
                    }
                }
            } else if op < 4 {
                // poll the receive future
                let w = op - 2;
                s.assume(rs != 5);
                s.assume(!fresh[1] || w == 0);
                if rs == 0 {
                    *rf = rx.receive();
                    rs = 1;
                    rpend = false;
                    if (p & P17) != 0 { assert!(!rf.is_terminated(), "C17 shared mpmc: fresh receive future reports terminated"); }
                }
                fresh[1] = false;
                let cell = if w == 0 { &cra } else { &crb };
                let waker = ManuallyDrop::new(mk_waker(cell));
                let mut cx = Context::from_waker(&waker);
                let r = unsafe { Pin::new_unchecked(&mut *rf) }.poll(&mut cx);
                let exp: Option<Option<u8>>;
                if rs == 2 { exp = None; }
                else if let Some(v) = buf {
                    buf = None;
                    if ss == 2 { buf = Some(stag); ss = 3; }
                    exp = Some(Some(v)); rs = 5;
                } else if closed { exp = Some(None); rs = 5; }
                else { exp = None; rs = 2; }
                match r {
                    Poll::Ready(Some(t)) => { if (p & (P08 | P09)) != 0 { assert!(exp == Some(Some(t.0)), "C09 shared mpmc: a receive yielded a value out of order, twice, or none was available"); } core::mem::forget(t); rpend = false; }
                    Poll::Ready(None) => { if (p & (P08 | P11)) != 0 { assert!(exp == Some(None), "C11 shared mpmc: a receive yielded None although open or a value is available"); } rpend = false; }
                    Poll::Pending => { if (p & (P10 | P08)) != 0 { assert!(exp.is_none(), "C10 shared mpmc: a receive stays pending although a value is available or the channel is closed"); } rpend = true; lw[1] = w; snap[1] = cell.n(); }
                }
            } else if op == 4 {
                s.assume(ss != 0 && !fresh[0]);
                unsafe { ManuallyDrop::drop(&mut sf) };
                ss = 0; spend = false;
            } else if op == 5 {
                s.assume(rs != 0 && !fresh[1]);
                unsafe { ManuallyDrop::drop(&mut rf) };
                rs = 0; rpend = false;
            } else if op == 6 {
                s.assume(next_tag < 6);
                let tag = next_tag; next_tag += 1;
                match tx.try_send(Tag(tag)) {
                    Ok(()) => { if (p & P09) != 0 { assert!(!closed && buf.is_none(), "C09 shared mpmc: try_send accepted a value on a full or closed channel"); } buf = Some(tag); if rs == 2 { rs = 3; } }
                    Err(e) => { let t = e.into_inner(); if (p & P08) != 0 { assert!(t.0 == tag && (closed || buf.is_some()), "C08 shared mpmc: try_send failed wrongly or returned a foreign value"); } core::mem::forget(t); }
                }
            } else if op == 7 {
                let exp = if let Some(v) = buf { buf = None; if ss == 2 { buf = Some(stag); ss = 3; } Some(v) } else { None };
                match rx.try_receive() {
                    Ok(t) => { if (p & (P08 | P09)) != 0 { assert!(exp == Some(t.0), "C09 shared mpmc: try_receive yielded a wrong value"); } core::mem::forget(t); }
                    Err(e) => { if (p & (P08 | P11)) != 0 { assert!(exp.is_none() && e.is_closed() == closed, "C08 shared mpmc: try_receive reported empty/closed wrongly"); } }
                }
            } else {
                let st = tx.close();
                if (p & P11) != 0 { assert!(st.is_newly_closed() == !closed, "C11 shared mpmc: close() status wrong"); }
                closed = true;
                if rs == 2 { rs = 1; }
                if ss == 2 { ss = 1; }
            }
            let wks = (if lw[0] == 0 { csa.n() } else { csb.n() }) > snap[0];
            let wkr = (if lw[1] == 0 { cra.n() } else { crb.n() }) > snap[1];
            if (p & P10) != 0 {
                if buf.is_some() && rpend { assert!(wkr, "C10 shared mpmc: a value is available but the pending receiver was not woken through its latest waker"); }
                if spend && ss == 3 { assert!(wks, "C10 shared mpmc: a pending sender whose value was accepted was not woken"); }
                if closed && spend { assert!(wks, "C10 shared mpmc: a sender pending at close() was not woken"); }
                if closed && rpend { assert!(wkr, "C10 shared mpmc: a receiver pending at close() was not woken"); }
            }
            if (p & P17) != 0 {
                if ss != 0 { assert!(sf.is_terminated() == (ss == 5), "C17 shared mpmc: send future is_terminated() differs from 'completed' (handle not restored after a Pending poll?)"); }
                if rs != 0 { assert!(rf.is_terminated() == (rs == 5), "C17 shared mpmc: receive future is_terminated() differs from 'completed' (handle not restored after a Pending poll?)"); }
            }
            if (p & P18) != 0 { assert!(alloc_events() == 0, "C18 shared mpmc: an operation allocated or freed heap memory"); }
            if spend && rpend { bits |= 1; }
        }
        core::mem::forget(tx);
        core::mem::forget(rx);
        s.reached(bits);
        bits
    }

    /// Shared (Arc) channel futures, straight-line: the futures take their Arc handle out for every poll and must put it
    /// back on Pending and keep it out on Ready. Script: optional try_send, optional close, poll, optional try_send,
    /// optional close, poll (only if the first poll was Pending), for a shared receive future; and the mirror image
    /// (optional fill, poll, optional try_receive / close, poll) for a shared send future.
    pub fn shared_polls<M: lock_api::RawMutex + 'static, S: Src>(s: &mut S, p: u32) -> u32 {
        type B1 = crate::buffer::ArrayBuf<Tag, [Tag; 1]>;
        let (tx, rx) = crate::channel::shared::generic_channel::<M, Tag, B1>(1);
        let cell = WakeCell::new();
        let waker = ManuallyDrop::new(mk_waker(&cell));
        let mut cx = Context::from_waker(&waker);
        let side = s.flag(); // false: receive future, true: send future
        let mut bits = 0;
        if !side {
            let mut buffered = false;
            let mut closed = false;
            if s.flag() { core::mem::forget(tx.try_send(Tag(1))); buffered = true; }
            if s.flag() { let _ = tx.close(); closed = true; }
            let mut f = ManuallyDrop::new(rx.receive());
            if (p & P17) != 0 { assert!(!f.is_terminated(), "C17 shared receive future: fresh future reports terminated"); }
            let r1 = unsafe { Pin::new_unchecked(&mut *f) }.poll(&mut cx);
            let ready1 = r1.is_ready();
            match r1 {
                Poll::Ready(Some(t)) => { if (p & (P08 | P09)) != 0 { assert!(buffered && t.0 == 1, "C08 shared receive future: yielded a value that is not buffered"); } core::mem::forget(t); }
                Poll::Ready(None) => { if (p & (P08 | P11)) != 0 { assert!(closed && !buffered, "C11 shared receive future: None although open or a value is buffered"); } }
                Poll::Pending => { if (p & (P10 | P08)) != 0 { assert!(!buffered && !closed, "C10 shared receive future: pending although a value is buffered or the channel is closed"); } }
            }
            if (p & P17) != 0 { assert!(f.is_terminated() == ready1, "C17 shared receive future: is_terminated() wrong after the first poll (handle not restored after Pending / kept after Ready)"); }
            if !ready1 {
                let sent = s.flag();
                if sent { core::mem::forget(tx.try_send(Tag(2))); }
                let cl = s.flag();
                if cl { let _ = tx.close(); }
                if (p & P10) != 0 && (sent || cl) { assert!(cell.n() >= 1, "C10 shared receive future: not woken by the send/close"); }
                let r2 = unsafe { Pin::new_unchecked(&mut *f) }.poll(&mut cx);
                let ready2 = r2.is_ready();
                match r2 {
                    Poll::Ready(Some(t)) => { if (p & (P08 | P09)) != 0 { assert!(sent && t.0 == 2, "C08 shared receive future: second poll yielded a wrong value"); } core::mem::forget(t); }
                    Poll::Ready(None) => { if (p & (P08 | P11)) != 0 { assert!(cl && !sent, "C11 shared receive future: None although open or a value is buffered"); } }
                    Poll::Pending => { if (p & (P10 | P08)) != 0 { assert!(!sent && !cl, "C10 shared receive future: pending although a value is buffered or closed"); } }
                }
                if (p & P17) != 0 { assert!(f.is_terminated() == ready2, "C17 shared receive future: is_terminated() wrong after the second poll"); }
                bits |= 1;
            }
            // the future may outlive both handles
            drop(tx);
            drop(rx);
            unsafe { ManuallyDrop::drop(&mut f) };
        } else {
            let mut full = false;
            let mut closed = false;
            if s.flag() { core::mem::forget(tx.try_send(Tag(1))); full = true; }
            if s.flag() { let _ = tx.close(); closed = true; }
            let mut f = ManuallyDrop::new(tx.send(Tag(5)));
            if (p & P17) != 0 { assert!(!f.is_terminated(), "C17 shared send future: fresh future reports terminated"); }
            let r1 = unsafe { Pin::new_unchecked(&mut *f) }.poll(&mut cx);
            let ready1 = r1.is_ready();
            match r1 {
                Poll::Ready(Ok(())) => { if (p & (P08 | P09)) != 0 { assert!(!closed && !full, "C09 shared send future: completed on a full or closed channel"); } }
                Poll::Ready(Err(e)) => { if (p & (P08 | P11)) != 0 { assert!(closed && (e.0).0 == 5, "C08 shared send future: failed on an open channel or returned a foreign value"); } core::mem::forget(e); }
                Poll::Pending => { if (p & (P09 | P10)) != 0 { assert!(full && !closed, "C09 shared send future: pending although there is room or the channel is closed"); } }
            }
            if (p & P17) != 0 { assert!(f.is_terminated() == ready1, "C17 shared send future: is_terminated() wrong after the first poll (handle not restored after Pending / kept after Ready)"); }
            if !ready1 {
                let what = s.below(3); // 0 receive, 1 close, 2 cancel
                if what == 0 {
                    match rx.try_receive() { Ok(t) => { if (p & P09) != 0 { assert!(t.0 == 1, "C09 shared channel: try_receive out of order"); } core::mem::forget(t); } Err(_) => { if (p & P08) != 0 { assert!(false, "C08 shared channel: buffered value lost"); } } }
                    if (p & P10) != 0 { assert!(cell.n() >= 1, "C10 shared send future: parked sender not woken when its value was accepted"); }
                } else if what == 1 {
                    let _ = tx.close();
                    if (p & P10) != 0 { assert!(cell.n() >= 1, "C10 shared send future: parked sender not woken by close()"); }
                } else {
                    let got = f.cancel();
                    if (p & P08) != 0 { assert!(got.as_ref().map(|t| t.0) == Some(5), "C08 shared send future: cancel() of a parked sender did not hand the value back"); }
                    core::mem::forget(got);
                    if (p & P17) != 0 { assert!(f.is_terminated(), "C17 shared send future: not terminated after cancel()"); }
                }
                if what != 2 {
                    let r2 = unsafe { Pin::new_unchecked(&mut *f) }.poll(&mut cx);
                    let ready2 = r2.is_ready();
                    match r2 {
                        Poll::Ready(Ok(())) => { if (p & (P08 | P09)) != 0 { assert!(what == 0, "C09 shared send future: completed without its value being accepted"); } }
                        Poll::Ready(Err(e)) => { if (p & (P08 | P11)) != 0 { assert!(what == 1 && (e.0).0 == 5, "C08 shared send future: failed wrongly or returned a foreign value"); } core::mem::forget(e); }
                        Poll::Pending => { if (p & (P09 | P10)) != 0 { assert!(false, "C10 shared send future: still pending after its value was accepted / the channel was closed"); } }
                    }
                    if (p & P17) != 0 { assert!(f.is_terminated() == ready2, "C17 shared send future: is_terminated() wrong after the second poll"); }
                }
                bits |= 2;
            }
            drop(tx);
            core::mem::forget(rx);
            unsafe { ManuallyDrop::drop(&mut f) };
        }
        s.reached(bits);
        bits
    }

    /// C11 "receivers still get the value accepted before the close" for the shared flavours whose receive futures outlive
    /// their handles: a receive future is created (optionally polled to Pending), a value is accepted, then the receiver
    /// handle and/or the sender handle are dropped (implicit close), then the future is polled: it must yield that value.
    pub fn shared_value_survives<L: Flavour, S: Src>(s: &mut S, p: u32) -> u32 {
        let (tx, rx) = L::mk();
        let cell = WakeCell::new();
        let waker = ManuallyDrop::new(mk_waker(&cell));
        let mut cx = Context::from_waker(&waker);
        let mut f = ManuallyDrop::new(L::observe(&rx));
        let polled_first = s.flag();
        if polled_first {
            if let Poll::Ready(o) = unsafe { Pin::new_unchecked(&mut *f) }.poll(&mut cx) {
                L::forget_output(o);
                if (p & (P11 | P12 | P13)) != 0 { assert!(false, "C11+C12+C13 shared receive future: completed on a fresh open channel"); }
            }
        }
        let accepted = L::send7(&tx);
        if (p & (P11 | P12 | P13)) != 0 { assert!(accepted, "C11+C12+C13 shared channel: a send on an open channel with both sides alive was rejected"); }
        if polled_first && (p & (P12 | P13)) != 0 { assert!(cell.n() >= 1, "C12+C13 shared receive future: pending at the send but not woken"); }
        let who = s.below(3); // 0 drop the receiver handle, 1 drop the sender handle, 2 both
        let mut tx = ManuallyDrop::new(tx);
        let mut rx = ManuallyDrop::new(rx);
        if who != 1 { unsafe { ManuallyDrop::drop(&mut rx) }; }
        if who != 0 { unsafe { ManuallyDrop::drop(&mut tx) }; }
        match unsafe { Pin::new_unchecked(&mut *f) }.poll(&mut cx) {
            Poll::Ready(o) => {
                if (p & (P11 | P12 | P13)) != 0 {
                    assert!(L::tag_of(&o) == Some(7), "C11+C12+C13 shared receive future: the value accepted before the handles were dropped was not delivered");
                }
                L::forget_output(o);
            }
            Poll::Pending => { if (p & (P11 | P12 | P13)) != 0 { assert!(false, "C11+C12+C13 shared receive future: pending although a value was accepted"); } }
        }
        let bits = (polled_first as u32) | ((who as u32) << 1);
        s.reached(bits);
        bits
    }

    /// Shared (Arc-based) receive futures and waker replacement: the future is polled with waker A, re-polled with waker B
    /// (same data pointer, other vtable - `will_wake` is false), then the last sender handle is dropped (implicit close):
    /// the pending future must have been woken through B, the waker of its latest poll, and must then resolve to None.
    pub fn shared_waker<L: Flavour, S: Src>(s: &mut S, p: u32) -> u32 {
        let (tx, rx) = L::mk();
        let c = DualCell::new();
        let mut f = ManuallyDrop::new(L::observe(&rx));
        let both_pending = dual_repoll(unsafe { Pin::new_unchecked(&mut *f) }, &c);
        if (p & (P10 | P12 | P13)) != 0 { assert!(both_pending, "C10+C12+C13 shared receive future: completed on a fresh open channel"); }
        // optionally a third poll with A again (the stored waker must follow the LATEST poll every time)
        let third = s.flag();
        if third && both_pending {
            let wa = ManuallyDrop::new(mk_waker_a(&c));
            let mut cx = Context::from_waker(&wa);
            if let Poll::Ready(o) = unsafe { Pin::new_unchecked(&mut *f) }.poll(&mut cx) { L::forget_output(o); }
        }
        drop(tx);
        if both_pending && (p & (P10 | P12 | P13)) != 0 {
            let latest = if third { c.a.get() } else { c.b.get() };
            assert!(latest >= 1, "C10+C12+C13 shared receive future: pending at the (implicit) close but not woken through the waker of its latest poll");
            let wb = ManuallyDrop::new(mk_waker_b(&c));
            let mut cx = Context::from_waker(&wb);
            match unsafe { Pin::new_unchecked(&mut *f) }.poll(&mut cx) {
                Poll::Ready(o) => { assert!(L::is_none(&o), "C10+C12+C13 shared receive future: yielded a value that was never sent"); L::forget_output(o); }
                Poll::Pending => assert!(false, "C10+C12+C13 shared receive future: still pending after the channel was closed"),
            }
        }
        core::mem::forget(rx);
        let bits = third as u32;
        s.reached(bits);
        bits
    }

    /// C11, shared mpmc handle counting WITHOUT futures (the observer-future lifecycle exhausts memory for mpmc): a symbolic
    /// clone/drop script over 2 sender + 2 receiver handle slots; after every operation the channel must be closed exactly if
    /// the last handle of a side is gone, observed without side effects (try_receive on an empty open channel reports Empty,
    /// on a closed one Closed; with no receiver left, try_send must be refused as Closed).
    pub fn mpmc_handles<M: lock_api::RawMutex + 'static, S: Src>(s: &mut S, n: usize, p: u32) -> u32 {
        let (tx, rx) = crate::channel::shared::generic_channel::<M, Tag, B2>(2);
        type Tx<M> = crate::channel::shared::GenericSender<M, Tag, B2>;
        type Rx<M> = crate::channel::shared::GenericReceiver<M, Tag, B2>;
        let mut t0: ManuallyDrop<Option<Tx<M>>> = ManuallyDrop::new(Some(tx));
        let mut t1: ManuallyDrop<Option<Tx<M>>> = ManuallyDrop::new(None);
        let mut r0: ManuallyDrop<Option<Rx<M>>> = ManuallyDrop::new(Some(rx));
        let mut r1: ManuallyDrop<Option<Rx<M>>> = ManuallyDrop::new(None);
        let mut ta = [true, false];
        let mut ra = [true, false];
        let mut bits = 0u32;
        let mut step = 0;
        while step < n && !s.exhausted() {
            step += 1;
            let op = s.below(4);
            let j = s.below(2) as usize;
            let ntx = ta[0] as u8 + ta[1] as u8;
            let nrx = ra[0] as u8 + ra[1] as u8;
            s.assume(ntx > 0 && nrx > 0); // stop once a side is gone: the next drop could free the state
            if op == 0 {
                s.assume(!ta[j]);
                let c = (**(if ta[0] { &t0 } else { &t1 })).as_ref().unwrap().clone();
                let dst = match j { 0 => &mut t0, _ => &mut t1 };
                unsafe { core::ptr::write(&mut **dst, Some(c)) };
                ta[j] = true;
            } else if op == 1 {
                s.assume(!ra[j]);
                let c = (**(if ra[0] { &r0 } else { &r1 })).as_ref().unwrap().clone();
                let dst = match j { 0 => &mut r0, _ => &mut r1 };
                unsafe { core::ptr::write(&mut **dst, Some(c)) };
                ra[j] = true;
            } else if op == 2 {
                s.assume(ta[j]);
                let slot = match j { 0 => &mut t0, _ => &mut t1 };
                let h = unsafe { core::ptr::read(&**slot) };
                unsafe { core::ptr::write(&mut **slot, None) };
                drop(h);
                ta[j] = false;
                if ntx > 1 { bits |= W_DROP_NONLAST_TX; } else if step > 1 { bits |= W_CLOSED_BY_LAST; }
            } else {
                s.assume(ra[j]);
                let slot = match j { 0 => &mut r0, _ => &mut r1 };
                let h = unsafe { core::ptr::read(&**slot) };
                unsafe { core::ptr::write(&mut **slot, None) };
                drop(h);
                ra[j] = false;
                if nrx > 1 { bits |= W_DROP_NONLAST_RX; } else if step > 1 { bits |= W_CLOSED_BY_LAST; }
            }
            let expect_closed = !(ta[0] || ta[1]) || !(ra[0] || ra[1]);
            if (p & P11) != 0 {
                if ra[0] || ra[1] {
                    let r = (**(if ra[0] { &r0 } else { &r1 })).as_ref().unwrap();
                    match r.try_receive() {
                        Ok(t) => { core::mem::forget(t); assert!(false, "C11 shared mpmc handles: try_receive yielded a value that was never sent"); }
                        Err(e) => assert!(e.is_closed() == expect_closed,
                            "C11 shared mpmc handles: the channel is closed although a handle of each side is alive, or open although the last sender handle was dropped"),
                    }
                } else {
                    let t = (**(if ta[0] { &t0 } else { &t1 })).as_ref().unwrap();
                    match t.try_send(Tag(9)) {
                        Err(crate::channel::TrySendError::Closed(v)) => core::mem::forget(v),
                        Err(crate::channel::TrySendError::Full(v)) => { core::mem::forget(v); assert!(false, "C11 shared mpmc handles: the channel stayed open after the last receiver handle was dropped"); }
                        Ok(()) => assert!(false, "C11 shared mpmc handles: the channel stayed open after the last receiver handle was dropped"),
                    }
                }
            }
        }
        s.reached(bits);
        bits
    }

    /// Shared (Arc) mpmc SEND and RECEIVE futures (they take their Arc out for every poll and must put it back on Pending):
    /// straight-line scenario on a capacity-1 channel. C08 every value delivered or handed back once, C09 FIFO / capacity,
    /// C10 the parked sender is woken, C11 close semantics, C17 is_terminated().
    pub fn shared_mpmc_min<M: lock_api::RawMutex + 'static, S: Src>(s: &mut S, p: u32) -> u32 {
        let (tx, rx) = Mpmc::<M>::mk();
        let (cs, cr) = (WakeCell::new(), WakeCell::new());
        let ws = ManuallyDrop::new(mk_waker(&cs));
        let wr = ManuallyDrop::new(mk_waker(&cr));
        let pre = s.flag();
        if pre { core::mem::forget(tx.try_send(Tag(1))); }
        let mut sf = ManuallyDrop::new(tx.send(Tag(2)));
        let r = { let mut cx = Context::from_waker(&ws); unsafe { Pin::new_unchecked(&mut *sf) }.poll(&mut cx) };
        let mut sdone = false;
        match r {
            Poll::Ready(Ok(())) => { if (p & (P09 | P08)) != 0 { assert!(!pre, "C09 shared send future: completed although the buffer is full"); } sdone = true; }
            Poll::Ready(Err(e)) => { core::mem::forget(e); if (p & (P08 | P11)) != 0 { assert!(false, "C11 shared send future: failed on an open channel"); } sdone = true; }
            Poll::Pending => { if (p & (P09 | P10)) != 0 { assert!(pre, "C09 shared send future: pending although there is room"); } }
        }
        if (p & P17) != 0 { assert!(sf.is_terminated() == sdone, "C17 shared send future: is_terminated() differs from 'completed'"); }
        let closing = s.flag();
        if closing {
            let _ = tx.close();
            if !sdone {
                if (p & (P10 | P11)) != 0 { assert!(cs.n() >= 1, "C10+C11 shared send future: parked at close() but not woken"); }
                let r = { let mut cx = Context::from_waker(&ws); unsafe { Pin::new_unchecked(&mut *sf) }.poll(&mut cx) };
                match r {
                    Poll::Ready(Err(e)) => { if (p & (P08 | P11)) != 0 { assert!((e.0).0 == 2, "C08+C11 shared send future: did not hand back its own value after close()"); } core::mem::forget(e); }
                    Poll::Ready(Ok(())) => { if (p & P11) != 0 { assert!(false, "C11 shared send future: completed with Ok after close() although its value was never accepted"); } }
                    Poll::Pending => { if (p & (P10 | P11)) != 0 { assert!(false, "C11 shared send future: still pending after close()"); } }
                }
                sdone = true;
                if (p & P17) != 0 { assert!(sf.is_terminated(), "C17 shared send future: not terminated after it completed"); }
            }
        }
        // the consumer: values accepted before the close are still delivered, in order, then None
        let first = if pre { 1 } else { 2 };
        let mut rf = ManuallyDrop::new(rx.receive());
        let r = { let mut cx = Context::from_waker(&wr); unsafe { Pin::new_unchecked(&mut *rf) }.poll(&mut cx) };
        match r {
            Poll::Ready(Some(t)) => { if (p & (P08 | P09)) != 0 { assert!(t.0 == first, "C09 shared receive future: did not yield the oldest accepted value"); } core::mem::forget(t); }
            Poll::Ready(None) => { if (p & (P08 | P11)) != 0 { assert!(false, "C11 shared receive future: None although an accepted value is undelivered"); } }
            Poll::Pending => { if (p & (P08 | P10)) != 0 { assert!(false, "C10 shared receive future: pending although a value is buffered"); } }
        }
        if (p & P17) != 0 { assert!(rf.is_terminated(), "C17 shared receive future: not terminated after it completed"); }
        if !sdone {
            // the parked sender's value moved into the freed slot and the sender was woken through its waker
            if (p & P10) != 0 { assert!(cs.n() >= 1, "C10 shared send future: its value was accepted but it was not woken"); }
            let r = { let mut cx = Context::from_waker(&ws); unsafe { Pin::new_unchecked(&mut *sf) }.poll(&mut cx) };
            match r {
                Poll::Ready(Ok(())) => {}
                Poll::Ready(Err(e)) => { core::mem::forget(e); if (p & (P08 | P11)) != 0 { assert!(false, "C11 shared send future: failed on an open channel"); } }
                Poll::Pending => { if (p & (P09 | P10)) != 0 { assert!(false, "C10 shared send future: still pending after its value was accepted"); } }
            }
            if (p & P17) != 0 { assert!(sf.is_terminated(), "C17 shared send future: not terminated after it completed"); }
        }
        // second value (if one is still due) and the end
        let second_due = pre && !closing;
        match rx.try_receive() {
            Ok(t) => { if (p & (P08 | P09)) != 0 { assert!(second_due && t.0 == 2, "C09 shared mpmc: a value was delivered twice or out of order"); } core::mem::forget(t); }
            Err(e) => { if (p & (P08 | P11)) != 0 { assert!(!second_due && e.is_closed() == closing, "C11 shared mpmc: an accepted value is missing, or empty/closed is reported wrongly"); } }
        }
        core::mem::forget(tx);
        core::mem::forget(rx);
        let bits = (pre as u32) | ((closing as u32) << 1);
        s.reached(bits);
        bits
    }

    /// SharedStream (the stream adapter of the shared receiver; it creates one shared receive future per item):
    /// straight-line scenario - one optional buffered value, optional close, then two polls of the stream.
    /// (A looping interpreter over the shared channel exhausts memory: > 22 GB at two symbolic steps.)
    pub fn shared_stream_min<M: lock_api::RawMutex + 'static, S: Src>(s: &mut S, p: u32) -> u32 {
        use futures_core::stream::{FusedStream, Stream};
        let (tx, rx) = Mpmc::<M>::mk();
        let sent = s.flag();
        let closer = s.below(3); // 0 nobody, 1 the sender before into_stream(), 2 the STREAM's own close() afterwards
        let closed = closer != 0;
        if sent { core::mem::forget(tx.try_send(Tag(1))); }
        if closer == 1 { let _ = tx.close(); }
        let mut st = ManuallyDrop::new(rx.into_stream());
        if closer == 2 { let _ = st.close(); }
        if (p & P18) != 0 { arm_alloc(); }
        if (p & P17) != 0 { assert!(!st.is_terminated(), "C17 shared stream: a fresh stream reports terminated"); }
        let cell = WakeCell::new();
        let waker = ManuallyDrop::new(mk_waker(&cell));
        let mut cx = Context::from_waker(&waker);
        let r1 = unsafe { Pin::new_unchecked(&mut *st) }.poll_next(&mut cx);
        let mut ended = false;
        if (p & (P17 | P08)) != 0 {
            match r1 {
                Poll::Ready(Some(t)) => { assert!(sent && t.0 == 1, "C08+C17 shared stream: yielded an item that was never sent"); core::mem::forget(t); }
                Poll::Ready(None) => { assert!(closed && !sent, "C08+C17 shared stream: ended although the channel is open or an accepted value is still buffered (it was discarded)"); ended = true; }
                Poll::Pending => { assert!(!sent && !closed, "C08+C17 shared stream: pending although a value is buffered or the channel is closed"); }
            }
            if (p & P17) != 0 { assert!(st.is_terminated() == ended, "C17 shared stream: is_terminated() differs from 'None was yielded'"); }
        } else { core::mem::forget(r1); }
        let r2 = unsafe { Pin::new_unchecked(&mut *st) }.poll_next(&mut cx);
        if (p & P17) != 0 {
            match r2 {
                Poll::Ready(Some(t)) => { core::mem::forget(t); assert!(false, "C17 shared stream: yielded a second item although at most one was sent"); }
                Poll::Ready(None) => { assert!(closed, "C17 shared stream: ended although the channel is open"); ended = true; }
                Poll::Pending => { assert!(!closed, "C17 shared stream: pending although the channel is closed and drained"); }
            }
            assert!(st.is_terminated() == ended, "C17 shared stream: is_terminated() differs from 'None was yielded'");
        } else { core::mem::forget(r2); }
        if (p & P18) != 0 {
            assert!(alloc_events() == 0, "C18 shared stream: poll_next allocated or freed heap memory");
            disarm_alloc();
        }
        core::mem::forget(tx);
        let bits = (sent as u32) | ((closer as u32) << 1);
        s.reached(bits);
        bits
    }

    pub fn replay(name: &str, _cfg: u32, p: u32, s: &mut ScriptSrc<'_>) -> bool {
        type NL = crate::LocalLock;
        match name {
            "shared_stream_min" => { shared_stream_min::<NL, _>(s, p); }
            "shared_mpmc_min" => { shared_mpmc_min::<NL, _>(s, p); }
            "mpmc_handles" => { mpmc_handles::<NL, _>(s, 64, p); }
            "shared_value_oneshot" => { shared_value_survives::<Oneshot<NL>, _>(s, p); }
            "shared_value_oneshot_bc" => { shared_value_survives::<OneshotBc<NL>, _>(s, p); }
            "shared_value_state" => { shared_value_survives::<State<NL>, _>(s, p); }
            "shared_waker_mpmc" => { shared_waker::<Mpmc<NL>, _>(s, p); }
            "shared_waker_oneshot" => { shared_waker::<Oneshot<NL>, _>(s, p); }
            "shared_waker_oneshot_bc" => { shared_waker::<OneshotBc<NL>, _>(s, p); }
            "shared_waker_state" => { shared_waker::<State<NL>, _>(s, p); }
            "shared_polls" => { shared_polls::<NL, _>(s, p); }
            "shared_polls_check" => { shared_polls::<CheckLock, _>(s, p); }
            "shared_mpmc" => { shared_mpmc::<NL, _>(s, 64, p); }
            "life_mpmc_discard" => { mpmc_discard::<NL, B2, _>(s, p); }
            "life_mpmc_discard_fixed" => { mpmc_discard::<NL, crate::buffer::FixedHeapBuf<Tag>, _>(s, p); }
            "life_mpmc_discard_check" => { mpmc_discard::<CheckLock, B2, _>(s, p); }
            "life_mpmc" => { hist::<Mpmc<NL>, _>(s, 64, p); }
            "life_oneshot" => { hist::<Oneshot<NL>, _>(s, 64, p); }
            "life_oneshot_bc" => { hist::<OneshotBc<NL>, _>(s, 64, p); }
            "life_state" => { hist::<State<NL>, _>(s, 64, p); }
            "life_mpmc_check" => { hist::<Mpmc<CheckLock>, _>(s, 64, p); }
            "life_oneshot_bc_check" => { hist::<OneshotBc<CheckLock>, _>(s, 64, p); }
            "life_state_check" => { hist::<State<CheckLock>, _>(s, 64, p); }
            _ => return false,
        }
        true
    }

    #[cfg(kani)]
    mod proofs {
        use super::*;
        type NL = crate::LocalLock;
        macro_rules! life_proof {
            ($name:ident, $fl:ty, $n:expr, $p:expr, $unw:expr) => {
                #[kani::proof]
                #[kani::unwind($unw)]
                fn $name() {
                    let _bits = hist::<$fl, _>(&mut KaniSrc, $n, $p);
                }
            };
        }
        #[kani::proof]
        #[kani::unwind(4)]
        fn shared_value_oneshot() { let _ = shared_value_survives::<Oneshot<NL>, _>(&mut KaniSrc, P11); }
        #[kani::proof]
        #[kani::unwind(4)]
        fn shared_value_oneshot_bc() { let _ = shared_value_survives::<OneshotBc<NL>, _>(&mut KaniSrc, P11); }
        #[kani::proof]
        #[kani::unwind(4)]
        fn shared_value_state() { let _ = shared_value_survives::<State<NL>, _>(&mut KaniSrc, P11); }
        #[kani::proof]
        #[kani::unwind(4)]
        fn shared_waker_mpmc() { let _ = shared_waker::<Mpmc<NL>, _>(&mut KaniSrc, P10); }
        #[kani::proof]
        #[kani::unwind(4)]
        fn shared_waker_oneshot() { let _ = shared_waker::<Oneshot<NL>, _>(&mut KaniSrc, P12); }
        #[kani::proof]
        #[kani::unwind(4)]
        fn shared_waker_oneshot_bc() { let _ = shared_waker::<OneshotBc<NL>, _>(&mut KaniSrc, P12); }
        #[kani::proof]
        #[kani::unwind(4)]
        fn shared_waker_state() { let _ = shared_waker::<State<NL>, _>(&mut KaniSrc, P13); }
        #[kani::proof]
        #[kani::unwind(5)]
        fn mpmc_handles_n3() { let b = mpmc_handles::<NL, _>(&mut KaniSrc, 3, P11); kani::cover!(b & W_CLOSED_BY_LAST != 0, "W mpmc handles: closed by the last handle after a clone/drop sequence"); }
        #[kani::proof]
        #[kani::unwind(6)]
        fn mpmc_handles_n4() { let b = mpmc_handles::<NL, _>(&mut KaniSrc, 4, P11); kani::cover!(b & W_CLOSED_BY_LAST != 0, "W mpmc handles: closed by the last handle after a clone/drop sequence"); }
        #[kani::proof]
        #[kani::unwind(4)]
        fn shared_mpmc_min_c09() { let b = shared_mpmc_min::<NL, _>(&mut KaniSrc, P09); kani::cover!(b == 1, "W shared mpmc: sender parked, then served"); }
        #[kani::proof]
        #[kani::unwind(4)]
        fn shared_mpmc_min_c08() { let _ = shared_mpmc_min::<NL, _>(&mut KaniSrc, P08); }
        #[kani::proof]
        #[kani::unwind(4)]
        fn shared_mpmc_min_c10() { let _ = shared_mpmc_min::<NL, _>(&mut KaniSrc, P10); }
        #[kani::proof]
        #[kani::unwind(4)]
        fn shared_mpmc_min_c11() { let _ = shared_mpmc_min::<NL, _>(&mut KaniSrc, P11); }
        #[kani::proof]
        #[kani::unwind(4)]
        fn shared_mpmc_min_c17() { let _ = shared_mpmc_min::<NL, _>(&mut KaniSrc, P17); }
        #[kani::proof]
        #[kani::unwind(4)]
        #[kani::stub(alloc::alloc::alloc, crate::verif::common::stub_alloc)]
        #[kani::stub(alloc::alloc::dealloc, crate::verif::common::stub_dealloc)]
        #[kani::stub(alloc::alloc::realloc, crate::verif::common::stub_realloc)]
        #[kani::stub(alloc::fmt::format, crate::verif::common::stub_format)]
        fn shared_stream_min_c18() { let _ = shared_stream_min::<NL, _>(&mut KaniSrc, P18); }
        #[kani::proof]
        #[kani::unwind(4)]
        fn shared_stream_min_c17() { let b = shared_stream_min::<NL, _>(&mut KaniSrc, P17); kani::cover!(b == 5, "W shared stream: value buffered, closed by the stream itself"); }
        #[kani::proof]
        #[kani::unwind(4)]
        fn shared_stream_min_c08() { let _ = shared_stream_min::<NL, _>(&mut KaniSrc, P08); }
        #[kani::proof]
        #[kani::unwind(4)]
        fn repoll_panics_shared_send() {
            let (tx, rx) = Mpmc::<NL>::mk();
            // both completion paths: Ok(()) with room, Err(own value) on a closed channel
            if kani::any() { let _ = rx.close(); }
            let f = tx.send(Tag(1));
            core::mem::forget(tx);
            core::mem::forget(rx);
            repoll_after_ready(f);
        }
        #[kani::proof]
        #[kani::unwind(4)]
        fn repoll_panics_shared_receive() {
            let (tx, rx) = Mpmc::<NL>::mk();
            // both completion paths: Some(value), and None on a closed and drained channel
            let sent: bool = kani::any();
            let closed: bool = kani::any();
            kani::assume(sent || closed);
            if sent { core::mem::forget(tx.try_send(Tag(1))); }
            if closed { let _ = tx.close(); }
            let f = rx.receive();
            core::mem::forget(tx);
            core::mem::forget(rx);
            repoll_after_ready(f);
        }
        #[kani::proof]
        #[kani::unwind(4)]
        fn repoll_panics_shared_state() {
            let (tx, rx) = State::<NL>::mk();
            let sent: bool = kani::any();
            let closed: bool = kani::any();
            kani::assume(sent || closed);
            if sent { core::mem::forget(tx.send(Tag(1))); }
            // (the shared state sender has no close(): the channel closes when the last sender handle is dropped)
            let mut tx = core::mem::ManuallyDrop::new(tx);
            if closed { unsafe { core::mem::ManuallyDrop::drop(&mut tx) }; }
            let f = rx.receive(crate::channel::StateId::new());
            core::mem::forget(rx);
            repoll_after_ready(f);
        }
        #[kani::proof]
        #[kani::unwind(5)]
        #[kani::stub(alloc::alloc::alloc, crate::verif::common::stub_alloc)]
        #[kani::stub(alloc::alloc::dealloc, crate::verif::common::stub_dealloc)]
        #[kani::stub(alloc::alloc::realloc, crate::verif::common::stub_realloc)]
        #[kani::stub(alloc::fmt::format, crate::verif::common::stub_format)]
        fn life_c18_oneshot_bc_n3() { let _ = hist::<OneshotBc<NL>, _>(&mut KaniSrc, 3, P18); }
        #[kani::proof]
        #[kani::unwind(5)]
        #[kani::stub(alloc::alloc::alloc, crate::verif::common::stub_alloc)]
        #[kani::stub(alloc::alloc::dealloc, crate::verif::common::stub_dealloc)]
        #[kani::stub(alloc::alloc::realloc, crate::verif::common::stub_realloc)]
        #[kani::stub(alloc::fmt::format, crate::verif::common::stub_format)]
        fn life_c18_state_n3() { let _ = hist::<State<NL>, _>(&mut KaniSrc, 3, P18); }
        /// The allocator stubs are live: an armed Box allocation and its release are counted.
        #[kani::proof]
        #[kani::unwind(3)]
        #[kani::stub(alloc::alloc::alloc, crate::verif::common::stub_alloc)]
        #[kani::stub(alloc::alloc::dealloc, crate::verif::common::stub_dealloc)]
        #[kani::stub(alloc::alloc::realloc, crate::verif::common::stub_realloc)]
        #[kani::stub(alloc::fmt::format, crate::verif::common::stub_format)]
        fn c18_selftest() {
            // unarmed allocations are counted by nobody and trip nothing
            let b0 = alloc::boxed::Box::new(7u32);
            core::mem::forget(b0);
            assert!(alloc_events() == 0, "C18 selftest: an unarmed allocation was counted");
            arm_alloc_count_only();
            let b = alloc::boxed::Box::new(5u32);
            assert!(alloc_events() == 1, "C18 selftest: an armed allocation was not counted (stubs not applied)");
            // (Box's drop glue reaches the allocator through a Kani-internal model, not through alloc::alloc::dealloc:
            // frees are not observable in the model; the native replayer's counting global allocator sees them.)
            core::mem::forget(b);
            let mut v = alloc::vec::Vec::<u32>::new();
            v.push(1);
            assert!(alloc_events() >= 2, "C18 selftest: an armed Vec allocation was not counted (stubs not applied)");
            core::mem::forget(v);
            let before = alloc_events();
            let st = alloc::format!("x{}", 1u8);
            assert!(alloc_events() > before, "C18 selftest: format! was not counted (alloc::fmt::format stub not applied)");
            core::mem::forget(st);
        }
        #[kani::proof]
        #[kani::unwind(4)]
        fn life_mpmc_discard() {
            let b = mpmc_discard::<NL, B2, _>(&mut KaniSrc, P11);
            kani::cover!(b & 3 == 2 && (b >> 3) == 1, "W discard: two values buffered, closed by the sender before the last receiver goes");
        }
        #[kani::proof]
        #[kani::unwind(4)]
        fn life_mpmc_discard_c08() {
            let b = mpmc_discard::<NL, B2, _>(&mut KaniSrc, P08);
            kani::cover!((b >> 2) & 1 == 1 && b & 3 == 2, "W discard: a receiver clone exists while two values are buffered");
        }
        #[kani::proof]
        #[kani::unwind(4)]
        fn life_mpmc_discard_check() { let _ = mpmc_discard::<CheckLock, B2, _>(&mut KaniSrc, P11); }
        #[kani::proof]
        #[kani::unwind(4)]
        fn life_witness_mpmc_discard() {
            let b = mpmc_discard::<NL, B2, _>(&mut KaniSrc, 0);
            assert!(!(b & 3 == 2 && (b >> 3) == 1 && (b >> 2) & 1 == 0), "WITNESS reached");
        }
        #[kani::proof]
        #[kani::unwind(4)]
        fn shared_mpmc_c08_n3() { let _ = shared_mpmc::<NL, _>(&mut KaniSrc, 3, P08); }
        #[kani::proof]
        #[kani::unwind(5)]
        fn shared_mpmc_c08_n4() { let _ = shared_mpmc::<NL, _>(&mut KaniSrc, 4, P08); }
        #[kani::proof]
        #[kani::unwind(4)]
        fn shared_mpmc_c09_n3() { let _ = shared_mpmc::<NL, _>(&mut KaniSrc, 3, P09); }
        #[kani::proof]
        #[kani::unwind(5)]
        fn shared_mpmc_c09_n4() { let _ = shared_mpmc::<NL, _>(&mut KaniSrc, 4, P09); }
        #[kani::proof]
        #[kani::unwind(4)]
        fn shared_mpmc_c10_n3() { let _ = shared_mpmc::<NL, _>(&mut KaniSrc, 3, P10); }
        #[kani::proof]
        #[kani::unwind(5)]
        fn shared_mpmc_c10_n4() { let _ = shared_mpmc::<NL, _>(&mut KaniSrc, 4, P10); }
        #[kani::proof]
        #[kani::unwind(4)]
        fn shared_mpmc_c17_n3() { let _ = shared_mpmc::<NL, _>(&mut KaniSrc, 3, P17); }
        #[kani::proof]
        #[kani::unwind(5)]
        fn shared_mpmc_c17_n4() { let _ = shared_mpmc::<NL, _>(&mut KaniSrc, 4, P17); }
        #[kani::proof]
        #[kani::unwind(4)]
        fn shared_mpmc_c01_n3() { let _ = shared_mpmc::<NL, _>(&mut KaniSrc, 3, P01); }
        #[kani::proof]
        #[kani::unwind(5)]
        fn shared_mpmc_c01_n4() { let _ = shared_mpmc::<NL, _>(&mut KaniSrc, 4, P01); }
        #[kani::proof]
        #[kani::unwind(4)]
        fn shared_polls_c08() { let b = shared_polls::<NL, _>(&mut KaniSrc, P08); kani::cover!(b != 0, "W shared future: first poll pending, second poll made"); }
        #[kani::proof]
        #[kani::unwind(4)]
        fn shared_polls_c09() { let b = shared_polls::<NL, _>(&mut KaniSrc, P09); kani::cover!(b != 0, "W shared future: first poll pending, second poll made"); }
        #[kani::proof]
        #[kani::unwind(4)]
        fn shared_polls_c10() { let b = shared_polls::<NL, _>(&mut KaniSrc, P10); kani::cover!(b != 0, "W shared future: first poll pending, second poll made"); }
        #[kani::proof]
        #[kani::unwind(4)]
        fn shared_polls_c11() { let b = shared_polls::<NL, _>(&mut KaniSrc, P11); kani::cover!(b != 0, "W shared future: first poll pending, second poll made"); }
        #[kani::proof]
        #[kani::unwind(4)]
        fn shared_polls_c17() { let b = shared_polls::<NL, _>(&mut KaniSrc, P17); kani::cover!(b != 0, "W shared future: first poll pending, second poll made"); }
        #[kani::proof]
        #[kani::unwind(4)]
        fn shared_polls_c01() { let b = shared_polls::<NL, _>(&mut KaniSrc, P01); kani::cover!(b != 0, "W shared future: first poll pending, second poll made"); }
        #[kani::proof]
        #[kani::unwind(4)]
        fn shared_polls_c17_check() { let _ = shared_polls::<CheckLock, _>(&mut KaniSrc, P17); }
        life_proof!(life_mpmc_n3, Mpmc<NL>, 3, P11, 5);
        life_proof!(life_mpmc_n4, Mpmc<NL>, 4, P11, 6);
        life_proof!(life_mpmc_n5, Mpmc<NL>, 5, P11, 7);
        life_proof!(life_mpmc_n4_check, Mpmc<CheckLock>, 4, P11, 6);
        life_proof!(life_oneshot_n3, Oneshot<NL>, 3, P11, 5);
        life_proof!(life_oneshot_bc_n3, OneshotBc<NL>, 3, P11, 5);
        life_proof!(life_oneshot_bc_n4, OneshotBc<NL>, 4, P11, 6);
        life_proof!(life_oneshot_bc_n6, OneshotBc<NL>, 6, P11, 8);
        life_proof!(life_oneshot_bc_n4_check, OneshotBc<CheckLock>, 4, P11, 6);
        life_proof!(life_state_n3, State<NL>, 3, P11, 5);
        life_proof!(life_state_n4, State<NL>, 4, P11, 6);
        life_proof!(life_state_n5, State<NL>, 5, P11, 7);
        life_proof!(life_state_n4_check, State<CheckLock>, 4, P11, 6);
        life_proof!(life_c17_mpmc_n4, Mpmc<NL>, 4, P17, 6);
        life_proof!(life_c17_state_n3, State<NL>, 3, P17, 5);
        life_proof!(life_c17_state_n4, State<NL>, 4, P17, 6);

        #[kani::proof]
        #[kani::unwind(6)]
        fn life_witness_oneshot_bc_n3() {
            let bits = hist::<OneshotBc<NL>, _>(&mut KaniSrc, 3, 0);
            assert!(bits & (W_DROP_NONLAST_RX | W_CLOSED_BY_LAST) != (W_DROP_NONLAST_RX | W_CLOSED_BY_LAST), "WITNESS reached");
        }
        #[kani::proof]
        #[kani::unwind(6)]
        fn life_witness_mpmc_n3() {
            let bits = hist::<Mpmc<NL>, _>(&mut KaniSrc, 3, 0);
            assert!(bits & (W_DROP_NONLAST_TX | W_CLOSED_BY_LAST) != (W_DROP_NONLAST_TX | W_CLOSED_BY_LAST), "WITNESS reached");
        }
    }
}

// verification harness include for channel_future (see /verif/DESIGN.md)

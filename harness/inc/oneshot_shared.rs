// verification harness include for oneshot_shared (see /verif/DESIGN.md)

// Included inside `mod if_alloc` of /repo/src/sync/semaphore.rs under cfg(futures_intrusive_verif).
// Shared (Arc) semaphore flavour: a compact history interpreter through the public API with the C05 / C06 / C17
// oracles (the state machine is the same SemaphoreState; what differs is the Option<Arc> handling of the future
// and the releaser that owns a handle).

pub(crate) mod verif_sem_shared {
    use super::*;
    use crate::verif::common::*;
    use core::mem::ManuallyDrop;

    macro_rules! oracle {
        ($p:expr, $mask:expr, $cond:expr, $msg:literal) => {
            if ($p & $mask) != 0 {
                assert!($cond, $msg);
            }
        };
    }

    pub const K: usize = 2;
    pub const W_PENDING_THEN_READY: u32 = 1;

    /// cfg bits 0-1: fairness (0 unfair, 1 fair, 2 symbolic).
    pub fn hist<M: RawMutex, S: Src>(s: &mut S, cfg: u32, n: usize, p: u32) -> u32 {
        let fair = if cfg & 3 == 2 { s.flag() } else { cfg & 3 == 1 };
        let init = s.below(3) as usize;
        let sem = GenericSharedSemaphore::<M>::new(fair, init);
        let (c0a, c0b, c1a, c1b) = (WakeCell::new(), WakeCell::new(), WakeCell::new(), WakeCell::new());
        let mut q = [1 + s.below(2) as usize, 1 + s.below(2) as usize];
        let mut f0 = ManuallyDrop::new(sem.acquire(q[0]));
        let mut f1 = ManuallyDrop::new(sem.acquire(q[1]));
        let mut r0: ManuallyDrop<Option<GenericSharedSemaphoreReleaser<M>>> = ManuallyDrop::new(None);
        let mut r1: ManuallyDrop<Option<GenericSharedSemaphoreReleaser<M>>> = ManuallyDrop::new(None);
        let mut held = [0usize; K];
        let mut has = [false; K];
        let mut alive = [true; K];
        let mut pending = [false; K];
        let mut done = [false; K];
        let mut lw = [0u8; K];
        let mut snap = [0u32; K];
        let mut stamp = [0u32; K];
        let mut clock = 0u32;
        let mut fresh = [true; K];
        let mut ledger: usize = init;
        let mut bits = 0u32;
        if (p & P18) != 0 { arm_alloc(); }
        let mut step = 0;
        while step < n && !s.exhausted() {
            step += 1;
            let op = s.below(10);
            if op < 4 {
                let i = (op / 2) as usize;
                let w = op % 2;
                s.assume(alive[i] && !done[i]);
                s.assume(i == 0 || !fresh[0]);
                s.assume(!fresh[i] || w == 0);
                fresh[i] = false;
                let f = match i { 0 => &mut f0, _ => &mut f1 };
                let cell = match (i, w) { (0, 0) => &c0a, (0, _) => &c0b, (_, 0) => &c1a, (_, _) => &c1b };
                let woken_before = pending[i] && {
                    let lc = match (i, lw[i]) { (0, 0) => &c0a, (0, _) => &c0b, (_, 0) => &c1a, (_, _) => &c1b };
                    lc.n() > snap[i]
                };
                let waker = ManuallyDrop::new(mk_waker(cell));
                let mut cx = Context::from_waker(&waker);
                let r = unsafe { Pin::new_unchecked(&mut **f) }.poll(&mut cx);
                match r {
                    Poll::Ready(rel) => {
                        oracle!(p, P05, ledger >= q[i], "C05 shared semaphore: acquire completed with fewer permits available than requested");
                        if pending[i] { bits |= W_PENDING_THEN_READY; }
                        ledger = ledger.wrapping_sub(q[i]);
                        pending[i] = false;
                        done[i] = true;
                        has[i] = true;
                        held[i] = q[i];
                        let slot = match i { 0 => &mut r0, _ => &mut r1 };
                        unsafe { core::ptr::write(&mut **slot, Some(rel)) };
                    }
                    Poll::Pending => {
                        if !pending[i] || (woken_before && !fair) {
                            clock += 1;
                            stamp[i] = clock;
                        }
                        pending[i] = true;
                        lw[i] = w;
                        snap[i] = cell.n();
                    }
                }
            } else if op < 6 {
                let i = (op - 4) as usize;
                s.assume(alive[i] && pending[i]);
                let f = match i { 0 => &mut f0, _ => &mut f1 };
                unsafe { ManuallyDrop::drop(f) };
                alive[i] = false;
                pending[i] = false;
            } else if op < 8 {
                let j = (op - 6) as usize;
                s.assume(has[j]);
                let slot = match j { 0 => &mut r0, _ => &mut r1 };
                let rel = unsafe { core::ptr::read(&**slot) };
                unsafe { core::ptr::write(&mut **slot, None) };
                match rel { Some(rel) => drop(rel), None => s.assume(false) }
                ledger += held[j];
                has[j] = false;
                held[j] = 0;
            } else if op == 8 {
                let a = 1 + s.below(2) as usize;
                sem.release(a);
                ledger += a;
            } else {
                let a = s.below(3) as usize;
                match sem.try_acquire(a) {
                    Some(mut rel) => {
                        oracle!(p, P05, ledger >= a, "C05 shared semaphore: try_acquire succeeded with fewer permits available than requested");
                        if fair && a > 0 { oracle!(p, P07, !(pending[0] || pending[1]), "C07 shared fair semaphore: try_acquire overtook a pending request"); }
                        // keep the ledger small: give the permits back at once through disarm + release
                        let got = rel.disarm();
                        oracle!(p, P05, got == a, "C05 shared semaphore: disarm() did not return the granted amount");
                        drop(rel);
                        oracle!(p, P05, sem.permits() == ledger - a, "C05 shared semaphore: a disarmed releaser gave permits back");
                        sem.release(a);
                    }
                    None => { oracle!(p, P07, a > 0, "C07 shared semaphore: try_acquire(0) failed"); }
                }
            }
            oracle!(p, P18, alloc_events() == 0, "C18 shared semaphore: an operation allocated or freed heap memory");
            oracle!(p, P05, sem.permits() == ledger, "C05 shared semaphore: permits() differs from initial + released - outstanding");
            let wk0 = pending[0] && (if lw[0] == 0 { c0a.n() } else { c0b.n() }) > snap[0];
            let wk1 = pending[1] && (if lw[1] == 0 { c1a.n() } else { c1b.n() }) > snap[1];
            if (pending[0] || pending[1]) && !(wk0 || wk1) {
                let h = if pending[0] && (!pending[1] || stamp[0] < stamp[1]) { 0 } else { 1 };
                oracle!(p, P06, q[h] > sem.permits(), "C06 shared semaphore: the longest-waiting request fits but no pending future holds a wake-up");
            }
            if (p & P17) != 0 {
                if alive[0] { assert!(f0.is_terminated() == done[0], "C17 shared semaphore: is_terminated() differs from 'completed'"); }
                if alive[1] { assert!(f1.is_terminated() == done[1], "C17 shared semaphore: is_terminated() differs from 'completed'"); }
            }
        }
        s.reached(bits);
        bits
    }

    /// Straight-line scenario for the quick tier (the looping interpreter above costs ~6 GB / 25 min at N=5):
    /// one shared acquire future, an optional barging try_acquire, a release, the re-poll, the releaser's drop.
    /// C05 ledger, C06 wake-up through the latest waker, C17 is_terminated(), through the Arc-based types.
    pub fn scenario<M: RawMutex, S: Src>(s: &mut S, p: u32) -> u32 {
        let fair = s.flag();
        let init = s.below(3) as usize;
        let q = 1 + s.below(2) as usize;
        let sem = GenericSharedSemaphore::<M>::new(fair, init);
        let (ca, cb) = (WakeCell::new(), WakeCell::new());
        let mut ledger = init;
        let mut f = ManuallyDrop::new(sem.acquire(q));
        if (p & P17) != 0 { assert!(!f.is_terminated(), "C17 shared semaphore: a fresh acquire future reports terminated"); }
        let wa = ManuallyDrop::new(mk_waker(&ca));
        let wb = ManuallyDrop::new(mk_waker(&cb));
        let mut bits = 0u32;
        // first poll (waker A)
        let r1 = { let mut cx = Context::from_waker(&wa); unsafe { Pin::new_unchecked(&mut *f) }.poll(&mut cx) };
        let mut rel: ManuallyDrop<Option<GenericSharedSemaphoreReleaser<M>>> = ManuallyDrop::new(None);
        let mut done = false;
        match r1 {
            Poll::Ready(r) => {
                oracle!(p, P05, ledger >= q, "C05 shared semaphore: acquire completed with fewer permits available than requested");
                ledger = ledger.wrapping_sub(q);
                unsafe { core::ptr::write(&mut *rel, Some(r)) };
                done = true;
            }
            Poll::Pending => {
                oracle!(p, P05 | P06, ledger < q, "C05+C06 shared semaphore: acquire stays pending although enough permits are available and nobody waits");
            }
        }
        if (p & P17) != 0 { assert!(f.is_terminated() == done, "C17 shared semaphore: is_terminated() differs from 'completed'"); }
        oracle!(p, P05, sem.permits() == ledger, "C05 shared semaphore: permits() differs from initial - acquired");
        if !done {
            // optionally re-poll with another waker, then release enough (or not enough) permits
            let second_waker = s.flag();
            if second_waker {
                let r = { let mut cx = Context::from_waker(&wb); unsafe { Pin::new_unchecked(&mut *f) }.poll(&mut cx) };
                match r { Poll::Ready(x) => { core::mem::forget(x); oracle!(p, P05 | P06, false, "C05+C06 shared semaphore: a waiting acquire completed without a release"); } Poll::Pending => {} }
            }
            let a = 1 + s.below(2) as usize;
            sem.release(a);
            ledger += a;
            let latest = if second_waker { &cb } else { &ca };
            let stale = if second_waker { &ca } else { &cb };
            // (spurious wake-ups - of a request that does not fit, or through a stale waker - are not forbidden by C06)
            let _ = stale;
            if ledger >= q {
                oracle!(p, P06, latest.n() >= 1, "C06 shared semaphore: the waiting request fits after the release but was not woken through its latest waker");
                bits |= W_PENDING_THEN_READY;
            }
            let r = { let mut cx = Context::from_waker(&wb); unsafe { Pin::new_unchecked(&mut *f) }.poll(&mut cx) };
            match r {
                Poll::Ready(x) => {
                    oracle!(p, P05, ledger >= q, "C05 shared semaphore: acquire completed with fewer permits available than requested");
                    ledger = ledger.wrapping_sub(q);
                    unsafe { core::ptr::write(&mut *rel, Some(x)) };
                    done = true;
                }
                Poll::Pending => { oracle!(p, P05 | P06, ledger < q, "C05+C06 shared semaphore: acquire stays pending although it is the only request and fits"); }
            }
            if (p & P17) != 0 { assert!(f.is_terminated() == done, "C17 shared semaphore: is_terminated() differs from 'completed'"); }
            oracle!(p, P05, sem.permits() == ledger, "C05 shared semaphore: permits() differs from initial + released - acquired");
        }
        if done {
            // the releaser gives exactly its permits back when dropped
            let r = unsafe { core::ptr::read(&*rel) };
            drop(r);
            ledger += q;
            oracle!(p, P05, sem.permits() == ledger, "C05 shared semaphore: dropping the releaser did not give back exactly the acquired permits");
        }
        // dropping the (completed or still waiting) future leaves the permits alone
        unsafe { ManuallyDrop::drop(&mut f) };
        oracle!(p, P05, sem.permits() == ledger, "C05 shared semaphore: dropping the acquire future changed the permits");
        s.reached(bits);
        bits
    }

    #[no_mangle]
    pub fn fi_verif_replay_sem_shared(name: &str, cfg: u32, p: u32, s: &mut ScriptSrc<'_>) -> bool {
        match name {
            "semsh_scenario" => { scenario::<NoopLock, _>(s, p); }
            "semsh_hist_noop" => { hist::<NoopLock, _>(s, cfg, 64, p); }
            "semsh_hist_check" => { hist::<CheckLock, _>(s, cfg, 64, p); }
            _ => return false,
        }
        true
    }

    #[cfg(kani)]
    mod proofs {
        use super::*;
        macro_rules! hist_proof {
            ($name:ident, $lock:ty, $n:expr, $p:expr, $cfg:expr, $unw:expr) => {
                #[kani::proof]
                #[kani::unwind($unw)]
                fn $name() {
                    let bits = hist::<$lock, _>(&mut KaniSrc, $cfg, $n, $p);
                    kani::cover!(bits & W_PENDING_THEN_READY != 0, "W shared semaphore: a future that had to wait completed");
                }
            };
        }
        hist_proof!(hist_c05_n4, NoopLock, 4, P05, 2, 5);
        hist_proof!(hist_c06_n4, NoopLock, 4, P06, 2, 5);
        hist_proof!(hist_c17_n4, NoopLock, 4, P17, 2, 5);
        hist_proof!(hist_c01_n4, NoopLock, 4, P01, 2, 5);
        hist_proof!(hist_c05_n5, NoopLock, 5, P05, 2, 6);
        hist_proof!(hist_c06_n5, NoopLock, 5, P06, 2, 6);
        hist_proof!(hist_c17_n5, NoopLock, 5, P17, 2, 6);
        hist_proof!(hist_c06_n4_check, CheckLock, 4, P06, 2, 5);
        #[kani::proof]
        #[kani::unwind(3)]
        fn scenario_c05() { let b = scenario::<NoopLock, _>(&mut KaniSrc, P05); kani::cover!(b & W_PENDING_THEN_READY != 0, "W shared semaphore scenario: waited, then fitted"); }
        #[kani::proof]
        #[kani::unwind(3)]
        fn scenario_c06() { let b = scenario::<NoopLock, _>(&mut KaniSrc, P06); kani::cover!(b & W_PENDING_THEN_READY != 0, "W shared semaphore scenario: waited, then fitted"); }
        #[kani::proof]
        #[kani::unwind(3)]
        fn scenario_c17() { let _ = scenario::<NoopLock, _>(&mut KaniSrc, P17); }
        #[kani::proof]
        #[kani::unwind(3)]
        fn repoll_panics() {
            let sem = GenericSharedSemaphore::<NoopLock>::new(kani::any(), 2);
            repoll_after_ready(sem.acquire(1));
        }
    }
}

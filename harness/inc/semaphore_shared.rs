// verification harness include for semaphore_shared (see /verif/DESIGN.md)

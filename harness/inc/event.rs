// verification harness include for event (see /verif/DESIGN.md)

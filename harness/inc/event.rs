// Included at the end of /repo/src/sync/manual_reset_event.rs under cfg(futures_intrusive_verif).
// ManualResetEvent harnesses: C14 (+ C01, C17 parts).

pub(crate) mod verif_event {
    use super::*;
    use crate::verif::common::*;
    use core::mem::ManuallyDrop;

    macro_rules! oracle {
        ($p:expr, $mask:expr, $cond:expr, $msg:literal) => {
            if ($p & $mask) != 0 {
                assert!($cond, $msg);
            }
        };
    }

    pub const K: usize = 3;
    pub const W_SET_WAKES_TWO: u32 = 1; // set() with >= 2 pending waiters
    pub const W_RESET_BEFORE_REPOLL: u32 = 2; // a latched waiter completed although reset() came before its re-poll
    pub const W_SWAP_THEN_SET: u32 = 4; // waiter re-polled with the other waker, then woken through it

    /// cfg bit 0-1: initial state 0 = reset, 1 = set, 2 = symbolic
    pub fn hist<M: RawMutex, S: Src>(s: &mut S, cfg: u32, n: usize, p: u32) -> u32 {
        let init = if cfg & 3 == 2 { s.flag() } else { cfg & 3 == 1 };
        let ev = GenericManualResetEvent::<M>::new(init);
        let (c0a, c0b, c1a, c1b, c2a, c2b) = (
            WakeCell::new(), WakeCell::new(), WakeCell::new(),
            WakeCell::new(), WakeCell::new(), WakeCell::new(),
        );
        let mut f0 = ManuallyDrop::new(ev.wait());
        let mut f1 = ManuallyDrop::new(ev.wait());
        let mut f2 = ManuallyDrop::new(ev.wait());
        let mut is_set = init;
        if (p & P18) != 0 { arm_alloc(); }
        let mut alive = [true; K];
        let mut pending = [false; K];
        let mut latched = [false; K]; // a set() happened since the first poll
        let mut done = [false; K];
        let mut lw = [0u8; K];
        let mut snap = [0u32; K];
        let mut swapped = [false; K];
        let mut reset_after_latch = [false; K];
        let mut dead = [false; K]; // slot's future was dropped and not re-created yet
        let mut dsn = [[0u32; 2]; K]; // wake counts of its two wakers just before the drop
        let mut ever = [false; K];
        let mut fresh = [true; K];
        let mut bits = 0u32;
        let mut step = 0;
        while step < n && !s.exhausted() {
            step += 1;
            let op = s.below(11);
            let before = [c0a.n(), c0b.n(), c1a.n(), c1b.n(), c2a.n(), c2b.n()];
            if op < 6 {
                let i = (op / 2) as usize;
                let w = op % 2;
                s.assume(!done[i]);
                s.assume(i == 0 || ever[i - 1]); // slot symmetry
                s.assume(!fresh[i] || w == 0); // waker symmetry
                ever[i] = true;
                let f = match i { 0 => &mut f0, 1 => &mut f1, _ => &mut f2 };
                if !alive[i] {
                    *f = ManuallyDrop::new(ev.wait());
                    alive[i] = true;
                    dead[i] = false;
                    fresh[i] = true;
                    oracle!(p, P17, !f.is_terminated(), "C17 event: fresh wait future reports terminated");
                }
                fresh[i] = false;
                let cell = match (i, w) {
                    (0, 0) => &c0a, (0, _) => &c0b,
                    (1, 0) => &c1a, (1, _) => &c1b,
                    (_, 0) => &c2a, (_, _) => &c2b,
                };
                let waker = ManuallyDrop::new(mk_waker(cell));
                let mut cx = Context::from_waker(&waker);
                let r = unsafe { Pin::new_unchecked(&mut **f) }.poll(&mut cx);
                let expect_ready = if pending[i] { latched[i] } else { is_set };
                match r {
                    Poll::Ready(()) => {
                        oracle!(p, P14, expect_ready, "C14 event: wait completed although the event was not set during the wait");
                        if pending[i] && reset_after_latch[i] { bits |= W_RESET_BEFORE_REPOLL; }
                        if pending[i] && swapped[i] { bits |= W_SWAP_THEN_SET; }
                        pending[i] = false;
                        done[i] = true;
                    }
                    Poll::Pending => {
                        oracle!(p, P14, !expect_ready, "C14 event: wait did not complete although the event was set while it waited");
                        if pending[i] && lw[i] != w { swapped[i] = true; }
                        if !pending[i] { latched[i] = false; swapped[i] = false; reset_after_latch[i] = false; }
                        pending[i] = true;
                        lw[i] = w;
                        snap[i] = cell.n();
                    }
                }
            } else if op < 9 {
                let i = (op - 6) as usize;
                s.assume(alive[i] && (pending[i] || done[i]));
                let f = match i { 0 => &mut f0, 1 => &mut f1, _ => &mut f2 };
                dsn[i] = match i { 0 => [c0a.n(), c0b.n()], 1 => [c1a.n(), c1b.n()], _ => [c2a.n(), c2b.n()] };
                dead[i] = true;
                unsafe { ManuallyDrop::drop(f) };
                alive[i] = false;
                pending[i] = false;
                done[i] = false;
            } else if op == 9 {
                let np = pending[0] as u8 + pending[1] as u8 + pending[2] as u8;
                let unl = (pending[0] && !latched[0]) as u8 + (pending[1] && !latched[1]) as u8 + (pending[2] && !latched[2]) as u8;
                ev.set();
                is_set = true;
                let mut i = 0;
                while i < K {
                    if pending[i] { latched[i] = true; }
                    i += 1;
                }
                if unl >= 2 { bits |= W_SET_WAKES_TWO; }
                let _ = np;
            } else {
                ev.reset();
                is_set = false;
                let mut i = 0;
                while i < K {
                    if pending[i] && latched[i] { reset_after_latch[i] = true; }
                    i += 1;
                }
            }
            oracle!(p, P18, alloc_events() == 0, "C18 event: an operation allocated or freed heap memory");
            // ================= oracles after every operation =================
            oracle!(p, P14, ev.is_set() == is_set, "C14 event: is_set() differs from the last set/reset");
            let now = [c0a.n(), c0b.n(), c1a.n(), c1b.n(), c2a.n(), c2b.n()];
            if op == 10 {
                // (the statement forbids wake-ups by reset(); spurious wake-ups by other operations are not excluded by it)
                let mut j = 0;
                while j < 6 {
                    oracle!(p, P14, now[j] == before[j], "C14 event: reset() woke a waiter");
                    j += 1;
                }
            }
            // every latched pending waiter has been woken through its latest waker since its last poll
            let mut i = 0;
            while i < K {
                if pending[i] && latched[i] {
                    let c = now[2 * i + lw[i] as usize];
                    oracle!(p, P14, c > snap[i], "C14 event: set() did not wake a pending waiter through its latest waker");
                }
                i += 1;
            }
            if (p & P01) != 0 {
                // C01: a dropped future is in no wait queue any more, so its task is never woken again
                if dead[0] { assert!(c0a.n() == dsn[0][0] && c0b.n() == dsn[0][1], "C01 event: the task of a dropped future was woken (dangling waiter)"); }
                if dead[1] { assert!(c1a.n() == dsn[1][0] && c1b.n() == dsn[1][1], "C01 event: the task of a dropped future was woken (dangling waiter)"); }
                if dead[2] { assert!(c2a.n() == dsn[2][0] && c2b.n() == dsn[2][1], "C01 event: the task of a dropped future was woken (dangling waiter)"); }
            }
            if (p & P17) != 0 {
                if alive[0] { assert!(f0.is_terminated() == done[0], "C17 event: is_terminated() differs from 'completed'"); }
                if alive[1] { assert!(f1.is_terminated() == done[1], "C17 event: is_terminated() differs from 'completed'"); }
                if alive[2] { assert!(f2.is_terminated() == done[2], "C17 event: is_terminated() differs from 'completed'"); }
            }
        }
        s.reached(bits);
        bits
    }

    #[no_mangle]
    pub fn fi_verif_replay_event(name: &str, cfg: u32, p: u32, s: &mut ScriptSrc<'_>) -> bool {
        match name {
            "event_hist_noop" => { hist::<NoopLock, _>(s, cfg, 64, p); }
            "event_hist_check" => { hist::<CheckLock, _>(s, cfg, 64, p); }
            _ => return false,
        }
        true
    }

    // =====================================================================
    // E-STEP. Inv_event: queue members = {Waiting}; is_set => queue empty; Waiting => stored waker = latest;
    // state Done with `event` still Some = latched (woken by set(), not polled yet).
    //   C01 owns membership/stored waker, C14 owns "is_set => nobody waiting" and the poll/set/reset outcomes.
    // =====================================================================
    #[cfg(kani)]
    pub mod step {
        use super::*;
        type Node = ListNode<WaitQueueEntry>;
        // 0 New, 1 Waiting, 2 Latched (Done, not yet observed), 3 Terminated
        fn any_st() -> u8 { let x: u8 = kani::any(); kani::assume(x < 4); x }
        fn obs<M: RawMutex>(f: &GenericWaitForEventFuture<'_, M>) -> u8 {
            match (&f.wait_node.state, f.event.is_some()) {
                (PollState::New, _) => 0,
                (PollState::Waiting, _) => 1,
                (PollState::Done, true) => 2,
                (PollState::Done, false) => 3,
            }
        }
        pub fn run<M: RawMutex>(p: u32) {
            let set0: bool = kani::any();
            let ev = GenericManualResetEvent::<M>::new(set0);
            let (c0a, c0b, c1a, c1b, c2a, c2b) = (
                WakeCell::new(), WakeCell::new(), WakeCell::new(),
                WakeCell::new(), WakeCell::new(), WakeCell::new(),
            );
            let mut f0 = ManuallyDrop::new(ev.wait());
            let mut f1 = ManuallyDrop::new(ev.wait());
            let mut f2 = ManuallyDrop::new(ev.wait());
            let st = [any_st(), any_st(), any_st()];
            let lw: [bool; 3] = [kani::any(), kani::any(), kani::any()];
            let r: [u8; 3] = [kani::any(), kani::any(), kani::any()];
            kani::assume(r[0] < 3 && r[1] < 3 && r[2] < 3 && r[0] != r[1] && r[1] != r[2] && r[0] != r[2]);
            // Inv: is_set => nobody waiting
            if set0 { kani::assume(st[0] != 1 && st[1] != 1 && st[2] != 1); }
            macro_rules! setup {
                ($f:ident, $i:expr, $ca:expr, $cb:expr) => {
                    match st[$i] {
                        0 => {}
                        1 => { $f.wait_node.state = PollState::Waiting; $f.wait_node.task = Some(if lw[$i] { mk_waker(&$ca) } else { mk_waker(&$cb) }); }
                        2 => { $f.wait_node.state = PollState::Done; }
                        _ => { $f.wait_node.state = PollState::Done; $f.event = None; }
                    }
                };
            }
            setup!(f0, 0, c0a, c0b);
            setup!(f1, 1, c1a, c1b);
            setup!(f2, 2, c2a, c2b);
            {
                let mut g = ev.inner.lock();
                let mut k = 0u8;
                while k < 3 {
                    unsafe {
                        if st[0] == 1 && r[0] == k { g.waiters.add_front(&mut f0.wait_node); }
                        if st[1] == 1 && r[1] == k { g.waiters.add_front(&mut f1.wait_node); }
                        if st[2] == 1 && r[2] == k { g.waiters.add_front(&mut f2.wait_node); }
                    }
                    k += 1;
                }
            }
            let mut alive = [true; 3];
            let mut polled = 3usize;
            let mut polled_w = false;
            let t: usize = kani::any();
            kani::assume(t < 3);
            let cls: u8 = kani::any();
            kani::assume(cls < 4);
            let mut exp_set = set0;
            if cls == 0 {
                kani::assume(st[t] != 3);
                let f = match t { 0 => &mut f0, 1 => &mut f1, _ => &mut f2 };
                let wa: bool = kani::any();
                let cell = match (t, wa) {
                    (0, true) => &c0a, (0, false) => &c0b,
                    (1, true) => &c1a, (1, false) => &c1b,
                    (_, true) => &c2a, (_, false) => &c2b,
                };
                let w = ManuallyDrop::new(mk_waker(cell));
                let mut cx = Context::from_waker(&w);
                let res = unsafe { Pin::new_unchecked(&mut **f) }.poll(&mut cx);
                polled = t;
                polled_w = wa;
                let expect_ready = match st[t] { 0 => set0, 1 => false, _ => true };
                oracle!(p, P14, res.is_ready() == expect_ready, "C14 event step: poll outcome differs from 'set at a poll or set since the first poll'");
            } else if cls == 1 {
                let f = match t { 0 => &mut f0, 1 => &mut f1, _ => &mut f2 };
                unsafe { ManuallyDrop::drop(f) };
                alive[t] = false;
            } else if cls == 2 {
                ev.set();
                exp_set = true;
            } else {
                ev.reset();
                exp_set = false;
            }
            let t2 = [obs(&f0), obs(&f1), obs(&f2)];
            let cells_a = [&c0a, &c1a, &c2a];
            let cells_b = [&c0b, &c1b, &c2b];
            oracle!(p, P14, ev.is_set() == exp_set, "C14 event step: is_set() differs from the last set/reset");
            let mut i = 0;
            while i < 3 {
                if alive[i] {
                    if exp_set { oracle!(p, P14, t2[i] != 1, "C14 event step: a future is still waiting although the event is set"); }
                    if cls == 2 && st[i] == 1 {
                        let c = if lw[i] { cells_a[i] } else { cells_b[i] };
                        oracle!(p, P14, t2[i] == 2 && c.n() == 1, "C14 event step: set() did not complete and wake a waiting future through its latest waker");
                    }
                    if cls == 3 || cls == 1 || (cls == 0 && i != t) {
                        // reset / drop / someone else's poll leave this future's state untouched
                        if !(cls == 1 && i == t) {
                            oracle!(p, P14, t2[i] == st[i], "C14 event step: an unrelated operation changed a future's wait state");
                        }
                    }
                }
                if cls != 2 {
                    oracle!(p, P14, cells_a[i].n() == 0 && cells_b[i].n() == 0, "C14 event step: a waker was woken by something else than set()");
                }
                i += 1;
            }
            if (p & (P01 | P14)) != 0 {
                let g = ev.inner.lock();
                let nodes: [*const Node; 3] = [&f0.wait_node, &f1.wait_node, &f2.wait_node];
                let len = g.waiters.verif_len_checked(3);
                if (p & P01) != 0 { assert!(len.is_some(), "C01 event step: wait queue links are inconsistent"); }
                let mut cnt = 0usize;
                i = 0;
                while i < 3 {
                    let should = alive[i] && t2[i] == 1;
                    let pos = g.waiters.verif_pos_from_tail(nodes[i], 3);
                    if (p & P01) != 0 { assert!(pos.is_some() == should, "C01 event step: wait queue membership differs from {alive and waiting}"); }
                    let nd = unsafe { &*nodes[i] };
                    if !should { if (p & P01) != 0 { assert!(nd.verif_unlinked(), "C01 event step: a future outside the queue still carries links"); } }
                    if should {
                        cnt += 1;
                        let lwc: &WakeCell = if i == polled { if polled_w { cells_a[i] } else { cells_b[i] } }
                                             else if lw[i] { cells_a[i] } else { cells_b[i] };
                        let ok = match &nd.task { Some(w) => w.will_wake(&ManuallyDrop::new(mk_waker(lwc))), None => false };
                        if (p & P01) != 0 { assert!(ok, "C01 event step: waiting future does not store the waker of its latest poll"); }
                        if (p & P14) != 0 { assert!(ok, "C14 event step: waiting future does not store the waker of its latest poll (it would be woken through a stale waker)"); }
                    }
                    i += 1;
                }
                if (p & P01) != 0 { assert!(len == Some(cnt), "C01 event step: wait queue holds a node that is not a live waiting future"); }
            }
            if (p & P17) != 0 {
                if alive[0] { assert!(f0.is_terminated() == (t2[0] == 3), "C17 event step: is_terminated() differs from 'completed'"); }
                if alive[1] { assert!(f1.is_terminated() == (t2[1] == 3), "C17 event step: is_terminated() differs from 'completed'"); }
                if alive[2] { assert!(f2.is_terminated() == (t2[2] == 3), "C17 event step: is_terminated() differs from 'completed'"); }
            }
            kani::cover!(cls == 2 && st[0] == 1 && st[1] == 1, "W event step: set() with two waiting futures");
            kani::cover!(cls == 0 && st[t] == 2 && !set0, "W event step: latched future completes after reset");
        }
        pub fn base<M: RawMutex>() {
            let set0: bool = kani::any();
            let ev = GenericManualResetEvent::<M>::new(set0);
            let f0 = ManuallyDrop::new(ev.wait());
            assert!(ev.is_set() == set0, "C14 event base: fresh event reports the wrong state");
            assert!(obs(&f0) == 0 && f0.wait_node.verif_unlinked() && f0.wait_node.task.is_none(), "C01 event base: fresh future not New/unlinked");
            assert!(!f0.is_terminated(), "C17 event base: fresh future reports terminated");
            let g = ev.inner.lock();
            assert!(g.waiters.verif_len_checked(1) == Some(0), "C01 event base: fresh event has a non-empty queue");
        }
    }

    #[cfg(kani)]
    mod proofs {
        use super::*;
        #[kani::proof]
        #[kani::unwind(3)]
        fn repoll_panics() {
            let ev = GenericManualResetEvent::<NoopLock>::new(true);
            repoll_after_ready(ev.wait());
        }
        #[kani::proof]
        #[kani::unwind(7)]
        #[kani::stub(alloc::alloc::alloc, crate::verif::common::stub_alloc)]
        #[kani::stub(alloc::alloc::dealloc, crate::verif::common::stub_dealloc)]
        #[kani::stub(alloc::alloc::realloc, crate::verif::common::stub_realloc)]
        #[kani::stub(alloc::fmt::format, crate::verif::common::stub_format)]
        fn hist_c18_n5() { let _ = hist::<NoopLock, _>(&mut KaniSrc, 2, 5, P18); }
        macro_rules! hist_proof {
            ($name:ident, $lock:ty, $n:expr, $p:expr, $unw:expr) => {
                #[kani::proof]
                #[kani::unwind($unw)]
                fn $name() {
                    let bits = hist::<$lock, _>(&mut KaniSrc, 2, $n, $p);
                    kani::cover!(bits & W_SET_WAKES_TWO != 0, "W set wakes two waiters");
                }
            };
        }
        hist_proof!(hist_c14_n4, NoopLock, 4, P14, 7);
        hist_proof!(hist_c14_n5, NoopLock, 5, P14, 7);
        hist_proof!(hist_c14_n6, NoopLock, 6, P14, 8);
        hist_proof!(hist_c14_n7, NoopLock, 7, P14, 9);
        hist_proof!(hist_c14_n8, NoopLock, 8, P14, 10);
        hist_proof!(hist_c14_n6_check, CheckLock, 6, P14, 8);
        hist_proof!(hist_c17_n5, NoopLock, 5, P17, 7);
        hist_proof!(hist_c17_n7, NoopLock, 7, P17, 9);
        hist_proof!(hist_c01_n5, NoopLock, 5, P01, 7);
        hist_proof!(hist_c01_n5_check, CheckLock, 5, P01, 7);

        #[kani::proof]
        #[kani::unwind(7)]
        fn step_c14() { step::run::<NoopLock>(P14) }
        #[kani::proof]
        #[kani::unwind(7)]
        fn step_c01() { step::run::<NoopLock>(P01) }
        #[kani::proof]
        #[kani::unwind(7)]
        fn step_c01_check() { step::run::<CheckLock>(P01) }
        #[kani::proof]
        #[kani::unwind(7)]
        fn step_c17() { step::run::<NoopLock>(P17) }
        #[kani::proof]
        #[kani::unwind(7)]
        fn step_base() { step::base::<NoopLock>() }

        #[kani::proof]
        #[kani::unwind(8)]
        fn witness_reset_n6() {
            let bits = hist::<NoopLock, _>(&mut KaniSrc, 2, 6, 0);
            assert!(bits & W_RESET_BEFORE_REPOLL == 0, "WITNESS reached");
        }
    }
}

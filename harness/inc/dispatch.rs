// Replay dispatcher: the per-module interpreters live in private modules of the
// crate, so they are reached through #[no_mangle] Rust-ABI symbols.
extern "Rust" {
    fn fi_verif_replay_mutex(name: &str, cfg: u32, p: u32, s: &mut common::ScriptSrc<'_>) -> bool;
    fn fi_verif_replay_sem(name: &str, cfg: u32, p: u32, s: &mut common::ScriptSrc<'_>) -> bool;
    fn fi_verif_replay_list(name: &str, cfg: u32, p: u32, s: &mut common::ScriptSrc<'_>) -> bool;
    fn fi_verif_replay_heap(name: &str, cfg: u32, p: u32, s: &mut common::ScriptSrc<'_>) -> bool;
    fn fi_verif_replay_ring(name: &str, cfg: u32, p: u32, s: &mut common::ScriptSrc<'_>) -> bool;
    fn fi_verif_replay_event(name: &str, cfg: u32, p: u32, s: &mut common::ScriptSrc<'_>) -> bool;
    fn fi_verif_replay_oneshot(name: &str, cfg: u32, p: u32, s: &mut common::ScriptSrc<'_>) -> bool;
    fn fi_verif_replay_oneshot_bc(name: &str, cfg: u32, p: u32, s: &mut common::ScriptSrc<'_>) -> bool;
    fn fi_verif_replay_state(name: &str, cfg: u32, p: u32, s: &mut common::ScriptSrc<'_>) -> bool;
    fn fi_verif_replay_timer(name: &str, cfg: u32, p: u32, s: &mut common::ScriptSrc<'_>) -> bool;
    fn fi_verif_replay_mpmc(name: &str, cfg: u32, p: u32, s: &mut common::ScriptSrc<'_>) -> bool;
    fn fi_verif_replay_sem_shared(name: &str, cfg: u32, p: u32, s: &mut common::ScriptSrc<'_>) -> bool;
}

fn replay_dispatch(name: &str, cfg: u32, p: u32, s: &mut common::ScriptSrc<'_>) -> bool {
    unsafe { fi_verif_replay_mutex(name, cfg, p, s) || fi_verif_replay_sem(name, cfg, p, s)
            || fi_verif_replay_list(name, cfg, p, s)
            || fi_verif_replay_heap(name, cfg, p, s)
            || fi_verif_replay_ring(name, cfg, p, s)
            || fi_verif_replay_event(name, cfg, p, s)
            || fi_verif_replay_oneshot(name, cfg, p, s)
            || fi_verif_replay_oneshot_bc(name, cfg, p, s)
            || fi_verif_replay_state(name, cfg, p, s)
            || fi_verif_replay_timer(name, cfg, p, s)
            || fi_verif_replay_mpmc(name, cfg, p, s)
            || fi_verif_replay_sem_shared(name, cfg, p, s)
            || life::replay(name, cfg, p, s)
    }
}

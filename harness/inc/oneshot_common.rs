// Shared by oneshot.rs and oneshot_broadcast.rs (both define `type Chan<M>`, `const BROADCAST: bool` and
// `const NAME_*` before including this file). Borrowed flavour: E-HIST + E-STEP for C12 (+ C11 close semantics,
// C01, C17 parts).

    macro_rules! oracle {
        ($p:expr, $mask:expr, $cond:expr, $msg:literal) => {
            if ($p & $mask) != 0 {
                assert!($cond, $msg);
            }
        };
    }

    pub const K: usize = 3;
    pub const W_SEND_WAKES_TWO: u32 = 1; // send with >= 2 registered receivers
    pub const W_SECOND_RECEIVE: u32 = 2; // a second receiver polled after the value was delivered/cloned
    pub const W_CLOSE_WAKES: u32 = 4; // close() with a registered receiver

    /// Bounded history through the public API of the borrowed channel.
    pub fn hist<M: RawMutex, S: Src>(s: &mut S, _cfg: u32, n: usize, p: u32) -> u32 {
        let ch = Chan::<M>::new();
        let (c0a, c0b, c1a, c1b, c2a, c2b) = (
            WakeCell::new(), WakeCell::new(), WakeCell::new(),
            WakeCell::new(), WakeCell::new(), WakeCell::new(),
        );
        let mut f0 = ManuallyDrop::new(ch.receive());
        let mut f1 = ManuallyDrop::new(ch.receive());
        let mut f2 = ManuallyDrop::new(ch.receive());
        // model
        if (p & P18) != 0 { arm_alloc(); }
        let mut fulfilled = false;
        let mut value: Option<u8> = None;
        let mut sent: Option<u8> = None; // the one accepted value (for the broadcast flavour)
        let mut next_tag: u8 = 1;
        let mut delivered = 0u8;
        let mut dead = [false; K]; // slot's future was dropped and not re-created yet
        let mut dsn = [[0u32; 2]; K]; // wake counts of its two wakers just before the drop
        let mut alive = [true; K];
        let mut pending = [false; K];
        let mut done = [false; K];
        let mut lw = [0u8; K];
        let mut snap = [0u32; K];
        let mut ever = [false; K];
        let mut fresh = [true; K];
        let mut bits = 0u32;
        let mut step = 0;
        while step < n && !s.exhausted() {
            step += 1;
            let op = s.below(11);
            if op < 6 {
                let i = (op / 2) as usize;
                let w = op % 2;
                s.assume(!done[i]);
                s.assume(i == 0 || ever[i - 1]);
                s.assume(!fresh[i] || w == 0);
                ever[i] = true;
                let f = match i { 0 => &mut f0, 1 => &mut f1, _ => &mut f2 };
                if !alive[i] {
                    *f = ManuallyDrop::new(ch.receive());
                    alive[i] = true;
                    dead[i] = false;
                    fresh[i] = true;
                    oracle!(p, P17, !f.is_terminated(), "C17 oneshot: fresh receive future reports terminated");
                }
                fresh[i] = false;
                let cell = match (i, w) {
                    (0, 0) => &c0a, (0, _) => &c0b,
                    (1, 0) => &c1a, (1, _) => &c1b,
                    (_, 0) => &c2a, (_, _) => &c2b,
                };
                let waker = ManuallyDrop::new(mk_waker(cell));
                let mut cx = Context::from_waker(&waker);
                let r = unsafe { Pin::new_unchecked(&mut **f) }.poll(&mut cx);
                match r {
                    Poll::Ready(Some(t)) => {
                        oracle!(p, P12, value == Some(t.0), "C12 oneshot: a receive yielded a value the channel does not hold (second delivery or wrong value)");
                        if !BROADCAST { value = None; }
                        if delivered >= 1 { bits |= W_SECOND_RECEIVE; }
                        delivered += 1;
                        core::mem::forget(t);
                        pending[i] = false;
                        done[i] = true;
                    }
                    Poll::Ready(None) => {
                        oracle!(p, P12, fulfilled && value.is_none(), "C12 oneshot: a receive yielded None although a value is available or the channel is still open");
                        if sent.is_some() { bits |= W_SECOND_RECEIVE; }
                        pending[i] = false;
                        done[i] = true;
                    }
                    Poll::Pending => {
                        oracle!(p, P12, !fulfilled, "C12 oneshot: a receive stays pending although the channel is fulfilled or closed");
                        pending[i] = true;
                        lw[i] = w;
                        snap[i] = cell.n();
                    }
                }
            } else if op < 9 {
                let i = (op - 6) as usize;
                s.assume(alive[i] && (pending[i] || done[i]));
                let f = match i { 0 => &mut f0, 1 => &mut f1, _ => &mut f2 };
                dsn[i] = match i { 0 => [c0a.n(), c0b.n()], 1 => [c1a.n(), c1b.n()], _ => [c2a.n(), c2b.n()] };
                dead[i] = true;
                unsafe { ManuallyDrop::drop(f) };
                alive[i] = false;
                pending[i] = false;
                done[i] = false;
            } else if op == 9 {
                s.assume(next_tag < 6);
                let tag = next_tag;
                next_tag += 1;
                let np = pending[0] as u8 + pending[1] as u8 + pending[2] as u8;
                match ch.send(Tag(tag)) {
                    Ok(()) => {
                        oracle!(p, P12 | P11, !fulfilled, "C12 oneshot: a second send (or a send after close) was accepted");
                        fulfilled = true;
                        value = Some(tag);
                        sent = Some(tag);
                        if np >= 2 { bits |= W_SEND_WAKES_TWO; }
                    }
                    Err(e) => {
                        oracle!(p, P12 | P11, fulfilled, "C12 oneshot: the first send on an open channel was rejected");
                        oracle!(p, P12 | P11, (e.0).0 == tag, "C11 oneshot: a rejected send did not hand back the caller's own value");
                        core::mem::forget(e);
                    }
                }
            } else {
                let np = pending[0] as u8 + pending[1] as u8 + pending[2] as u8;
                let st = ch.close();
                oracle!(p, P11 | P12, st.is_newly_closed() == !fulfilled, "C11 oneshot: close() status is not NewlyClosed-once / AlreadyClosed-afterwards");
                if !fulfilled && np >= 1 { bits |= W_CLOSE_WAKES; }
                fulfilled = true;
            }
            oracle!(p, P18, alloc_events() == 0, "C18 oneshot: an operation allocated or freed heap memory");
            // every receiver pending at the moment of the send/close has been woken through its latest waker
            if fulfilled {
                let now = [c0a.n(), c0b.n(), c1a.n(), c1b.n(), c2a.n(), c2b.n()];
                let mut i = 0;
                while i < K {
                    if pending[i] {
                        oracle!(p, P12 | P11, now[2 * i + lw[i] as usize] > snap[i],
                            "C11+C12 oneshot: a receiver pending at the send/close was not woken through its latest waker");
                    }
                    i += 1;
                }
            }
            if (p & P01) != 0 {
                // C01: a dropped future is in no wait queue any more, so its task is never woken again
                if dead[0] { assert!(c0a.n() == dsn[0][0] && c0b.n() == dsn[0][1], "C01 oneshot: the task of a dropped future was woken (dangling waiter)"); }
                if dead[1] { assert!(c1a.n() == dsn[1][0] && c1b.n() == dsn[1][1], "C01 oneshot: the task of a dropped future was woken (dangling waiter)"); }
                if dead[2] { assert!(c2a.n() == dsn[2][0] && c2b.n() == dsn[2][1], "C01 oneshot: the task of a dropped future was woken (dangling waiter)"); }
            }
            if (p & P17) != 0 {
                if alive[0] { assert!(f0.is_terminated() == done[0], "C17 oneshot: is_terminated() differs from 'completed'"); }
                if alive[1] { assert!(f1.is_terminated() == done[1], "C17 oneshot: is_terminated() differs from 'completed'"); }
                if alive[2] { assert!(f2.is_terminated() == done[2], "C17 oneshot: is_terminated() differs from 'completed'"); }
            }
        }
        s.reached(bits);
        bits
    }

    // =====================================================================
    // E-STEP. Inv: queue members = {Registered}; fulfilled => queue empty; value.is_some() => fulfilled;
    // Registered => stored waker = latest; state Notified never occurs (keeps the two unreachable!() unreachable).
    // =====================================================================
    #[cfg(kani)]
    pub mod step {
        use super::*;
        type Node = ListNode<RecvWaitQueueEntry>;
        // 0 Unregistered(live), 1 Registered, 2 Terminated
        fn any_st() -> u8 { let x: u8 = kani::any(); kani::assume(x < 3); x }
        fn obs<M>(f: &ChannelReceiveFuture<'_, M, Tag>) -> u8 {
            match (&f.wait_node.state, f.channel.is_some()) {
                (_, false) => 2,
                (RecvPollState::Unregistered, true) => 0,
                (RecvPollState::Registered, true) => 1,
                (RecvPollState::Notified, true) => 9,
            }
        }
        pub fn run<M: RawMutex>(p: u32) {
            let ch = Chan::<M>::new();
            let (c0a, c0b, c1a, c1b, c2a, c2b) = (
                WakeCell::new(), WakeCell::new(), WakeCell::new(),
                WakeCell::new(), WakeCell::new(), WakeCell::new(),
            );
            let mut f0 = ManuallyDrop::new(ch.receive());
            let mut f1 = ManuallyDrop::new(ch.receive());
            let mut f2 = ManuallyDrop::new(ch.receive());
            let st = [any_st(), any_st(), any_st()];
            let lw: [bool; 3] = [kani::any(), kani::any(), kani::any()];
            let r: [u8; 3] = [kani::any(), kani::any(), kani::any()];
            kani::assume(r[0] < 3 && r[1] < 3 && r[2] < 3 && r[0] != r[1] && r[1] != r[2] && r[0] != r[2]);
            let fulfilled: bool = kani::any();
            let has_value: bool = kani::any();
            kani::assume(!has_value || fulfilled);
            if fulfilled { kani::assume(st[0] != 1 && st[1] != 1 && st[2] != 1); }
            macro_rules! setup {
                ($f:ident, $i:expr, $ca:expr, $cb:expr) => {
                    match st[$i] {
                        0 => {}
                        1 => { $f.wait_node.state = RecvPollState::Registered; $f.wait_node.task = Some(if lw[$i] { mk_waker(&$ca) } else { mk_waker(&$cb) }); }
                        _ => { $f.channel = None; }
                    }
                };
            }
            setup!(f0, 0, c0a, c0b);
            setup!(f1, 1, c1a, c1b);
            setup!(f2, 2, c2a, c2b);
            {
                let mut g = ch.inner.lock();
                g.is_fulfilled = fulfilled;
                if has_value { g.value = Some(Tag(7)); }
                let mut k = 0u8;
                while k < 3 {
                    unsafe {
                        if st[0] == 1 && r[0] == k { g.waiters.add_front(&mut f0.wait_node); }
                        if st[1] == 1 && r[1] == k { g.waiters.add_front(&mut f1.wait_node); }
                        if st[2] == 1 && r[2] == k { g.waiters.add_front(&mut f2.wait_node); }
                    }
                    k += 1;
                }
            }
            let mut alive = [true; 3];
            let mut polled = 3usize;
            let mut polled_w = false;
            let mut exp_fulfilled = fulfilled;
            let mut exp_value = has_value;
            let t: usize = kani::any();
            kani::assume(t < 3);
            let cls: u8 = kani::any();
            kani::assume(cls < 4);
            if cls == 0 {
                kani::assume(st[t] != 2);
                let f = match t { 0 => &mut f0, 1 => &mut f1, _ => &mut f2 };
                let wa: bool = kani::any();
                let cell = match (t, wa) {
                    (0, true) => &c0a, (0, false) => &c0b,
                    (1, true) => &c1a, (1, false) => &c1b,
                    (_, true) => &c2a, (_, false) => &c2b,
                };
                let w = ManuallyDrop::new(mk_waker(cell));
                let mut cx = Context::from_waker(&w);
                let res = unsafe { Pin::new_unchecked(&mut **f) }.poll(&mut cx);
                polled = t;
                polled_w = wa;
                match res {
                    Poll::Ready(Some(v)) => {
                        oracle!(p, P12, st[t] == 0 && has_value && v.0 == 7, "C12 oneshot step: a receive yielded a value the channel does not hold");
                        if !BROADCAST { exp_value = false; }
                        core::mem::forget(v);
                    }
                    Poll::Ready(None) => {
                        oracle!(p, P12, st[t] == 0 && fulfilled && !has_value, "C12 oneshot step: a receive yielded None although a value is available or the channel is open");
                    }
                    Poll::Pending => {
                        oracle!(p, P12, !fulfilled, "C12 oneshot step: a receive stays pending although the channel is fulfilled or closed");
                    }
                }
            } else if cls == 1 {
                let f = match t { 0 => &mut f0, 1 => &mut f1, _ => &mut f2 };
                unsafe { ManuallyDrop::drop(f) };
                alive[t] = false;
            } else if cls == 2 {
                match ch.send(Tag(3)) {
                    Ok(()) => {
                        oracle!(p, P12 | P11, !fulfilled, "C12 oneshot step: a send on a fulfilled/closed channel was accepted");
                        exp_fulfilled = true;
                        exp_value = true;
                    }
                    Err(e) => {
                        oracle!(p, P12 | P11, fulfilled && (e.0).0 == 3, "C12 oneshot step: an open channel rejected a send or did not hand the value back");
                        core::mem::forget(e);
                    }
                }
            } else {
                let stt = ch.close();
                oracle!(p, P11 | P12, stt.is_newly_closed() == !fulfilled, "C11 oneshot step: close() status wrong");
                exp_fulfilled = true;
            }
            let t2 = [obs(&f0), obs(&f1), obs(&f2)];
            let cells_a = [&c0a, &c1a, &c2a];
            let cells_b = [&c0b, &c1b, &c2b];
            {
                let g = ch.inner.lock();
                oracle!(p, P12 | P11, g.is_fulfilled == exp_fulfilled, "C12 oneshot step: fulfilled flag differs from the model");
                oracle!(p, P12, g.value.is_some() == exp_value, "C12 oneshot step: stored value differs from the model");
                if let Some(v) = &g.value {
                    oracle!(p, P12, v.0 == (if cls == 2 && !fulfilled { 3 } else { 7 }), "C12 oneshot step: stored value is not the accepted one");
                }
            }
            let mut i = 0;
            while i < 3 {
                if alive[i] {
                    oracle!(p, P01, t2[i] != 9, "C01 oneshot step: a receive future reached the Notified state (unreachable!() would fire)");
                    if exp_fulfilled { oracle!(p, P12 | P11, t2[i] != 1, "C12 oneshot step: a receiver is still registered although the channel is fulfilled/closed"); }
                    if (cls == 2 || cls == 3) && st[i] == 1 {
                        let c = if lw[i] { cells_a[i] } else { cells_b[i] };
                        oracle!(p, P12 | P11, c.n() == 1, "C12 oneshot step: send/close did not wake a registered receiver through its latest waker");
                    }
                }
                i += 1;
            }
            if (p & (P01 | P12)) != 0 {
                let g = ch.inner.lock();
                let nodes: [*const Node; 3] = [&f0.wait_node, &f1.wait_node, &f2.wait_node];
                let len = g.waiters.verif_len_checked(3);
                if (p & P01) != 0 { assert!(len.is_some(), "C01 oneshot step: wait queue links are inconsistent"); }
                let mut cnt = 0usize;
                i = 0;
                while i < 3 {
                    let should = alive[i] && t2[i] == 1;
                    let pos = g.waiters.verif_pos_from_tail(nodes[i], 3);
                    if (p & P01) != 0 { assert!(pos.is_some() == should, "C01 oneshot step: wait queue membership differs from {alive and registered}"); }
                    let nd = unsafe { &*nodes[i] };
                    if !should { if (p & P01) != 0 { assert!(nd.verif_unlinked(), "C01 oneshot step: a future outside the queue still carries links"); } }
                    if should {
                        cnt += 1;
                        let lwc: &WakeCell = if i == polled { if polled_w { cells_a[i] } else { cells_b[i] } }
                                             else if lw[i] { cells_a[i] } else { cells_b[i] };
                        let ok = match &nd.task { Some(w) => w.will_wake(&ManuallyDrop::new(mk_waker(lwc))), None => false };
                        if (p & P01) != 0 { assert!(ok, "C01 oneshot step: registered future does not store the waker of its latest poll"); }
                        if (p & P12) != 0 { assert!(ok, "C12 oneshot step: registered future does not store the waker of its latest poll (it would be woken through a stale waker)"); }
                    }
                    i += 1;
                }
                if (p & P01) != 0 { assert!(len == Some(cnt), "C01 oneshot step: wait queue holds a node that is not a live registered future"); }
            }
            if (p & P17) != 0 {
                if alive[0] { assert!(f0.is_terminated() == (t2[0] == 2), "C17 oneshot step: is_terminated() differs from 'completed'"); }
                if alive[1] { assert!(f1.is_terminated() == (t2[1] == 2), "C17 oneshot step: is_terminated() differs from 'completed'"); }
                if alive[2] { assert!(f2.is_terminated() == (t2[2] == 2), "C17 oneshot step: is_terminated() differs from 'completed'"); }
            }
            kani::cover!(cls == 2 && !fulfilled && st[0] == 1 && st[1] == 1, "W oneshot step: send with two registered receivers");
            // leave the stored Tag alone (the channel is forgotten with it)
            core::mem::forget(ch);
        }
    }

    #[cfg(kani)]
    mod proofs {
        use super::*;
        #[kani::proof]
        #[kani::unwind(3)]
        fn repoll_panics() {
            let ch = Chan::<NoopLock>::new();
            // both completion paths: Some(value) after send, None after close
            if kani::any() { core::mem::forget(ch.send(Tag(1))); } else { let _ = ch.close(); }
            repoll_after_ready(ch.receive());
        }
        #[kani::proof]
        #[kani::unwind(7)]
        #[kani::stub(alloc::alloc::alloc, crate::verif::common::stub_alloc)]
        #[kani::stub(alloc::alloc::dealloc, crate::verif::common::stub_dealloc)]
        #[kani::stub(alloc::alloc::realloc, crate::verif::common::stub_realloc)]
        #[kani::stub(alloc::fmt::format, crate::verif::common::stub_format)]
        fn hist_c18_n5() { let _ = hist::<NoopLock, _>(&mut KaniSrc, 0, 5, P18); }
        macro_rules! hist_proof {
            ($name:ident, $lock:ty, $n:expr, $p:expr, $unw:expr) => {
                #[kani::proof]
                #[kani::unwind($unw)]
                fn $name() {
                    let bits = hist::<$lock, _>(&mut KaniSrc, 0, $n, $p);
                    kani::cover!(bits & W_SEND_WAKES_TWO != 0, "W send wakes two receivers");
                }
            };
        }
        hist_proof!(hist_c12_n5, NoopLock, 5, P12, 7);
        hist_proof!(hist_c12_n6, NoopLock, 6, P12, 8);
        hist_proof!(hist_c12_n7, NoopLock, 7, P12, 9);
        hist_proof!(hist_c12_n8, NoopLock, 8, P12, 10);
        hist_proof!(hist_c12_n6_check, CheckLock, 6, P12, 8);
        hist_proof!(hist_c11_n5, NoopLock, 5, P11, 7);
        hist_proof!(hist_c11_n7, NoopLock, 7, P11, 9);
        hist_proof!(hist_c17_n5, NoopLock, 5, P17, 7);
        hist_proof!(hist_c17_n7, NoopLock, 7, P17, 9);
        hist_proof!(hist_c01_n5, NoopLock, 5, P01, 7);
        hist_proof!(hist_c01_n5_check, CheckLock, 5, P01, 7);

        #[kani::proof]
        #[kani::unwind(7)]
        fn step_c12() { step::run::<NoopLock>(P12) }
        #[kani::proof]
        #[kani::unwind(7)]
        fn step_c11() { step::run::<NoopLock>(P11) }
        #[kani::proof]
        #[kani::unwind(7)]
        fn step_c01() { step::run::<NoopLock>(P01) }
        #[kani::proof]
        #[kani::unwind(7)]
        fn step_c01_check() { step::run::<CheckLock>(P01) }
        #[kani::proof]
        #[kani::unwind(7)]
        fn step_c17() { step::run::<NoopLock>(P17) }

        #[kani::proof]
        #[kani::unwind(8)]
        fn witness_second_receive_n6() {
            let bits = hist::<NoopLock, _>(&mut KaniSrc, 0, 6, 0);
            assert!(bits & (W_SECOND_RECEIVE | W_SEND_WAKES_TWO) != (W_SECOND_RECEIVE | W_SEND_WAKES_TWO), "WITNESS reached");
        }
    }

// verification harness include for mpmc_shared (see /verif/DESIGN.md)

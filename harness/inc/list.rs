// Included at the end of /repo/src/intrusive_double_linked_list.rs under
// cfg(futures_intrusive_verif): read-only link accessors for the structural
// validators, and the C20 list harnesses.

impl<T> ListNode<T> {
    pub(crate) fn verif_prev(&self) -> Option<NonNull<ListNode<T>>> {
        self.prev
    }
    pub(crate) fn verif_next(&self) -> Option<NonNull<ListNode<T>>> {
        self.next
    }
    pub(crate) fn verif_unlinked(&self) -> bool {
        self.prev.is_none() && self.next.is_none()
    }
}

impl<T> LinkedList<T> {
    pub(crate) fn verif_head(&self) -> Option<NonNull<ListNode<T>>> {
        self.head
    }
    pub(crate) fn verif_tail(&self) -> Option<NonNull<ListNode<T>>> {
        self.tail
    }
    /// Position of `node` counted from the tail (oldest = 0), walking at most
    /// `max` links; None if it is not reached.
    pub(crate) fn verif_pos_from_tail(&self, node: *const ListNode<T>, max: usize) -> Option<usize> {
        let mut cur = self.tail;
        let mut i = 0;
        while i < max {
            match cur {
                None => return None,
                Some(p) => {
                    if p.as_ptr() as *const ListNode<T> == node {
                        return Some(i);
                    }
                    cur = unsafe { p.as_ref().prev };
                }
            }
            i += 1;
        }
        None
    }
    /// Number of nodes reachable from the tail within `max` links (max+1 = too long / cyclic),
    /// checking prev/next mutual consistency on the way.
    pub(crate) fn verif_len_checked(&self, max: usize) -> Option<usize> {
        let mut cur = self.tail;
        let mut newer: Option<NonNull<ListNode<T>>> = None; // the node we came from (towards tail)
        let mut i = 0;
        while i <= max {
            match cur {
                None => {
                    // reached the head end: head must be the last node visited
                    if self.head != newer {
                        return None;
                    }
                    return Some(i);
                }
                Some(p) => {
                    let n = unsafe { p.as_ref() };
                    if n.next != newer {
                        return None;
                    }
                    newer = Some(p);
                    cur = n.prev;
                }
            }
            i += 1;
        }
        None
    }
}

// ===========================================================================
// C20 (list part): the list behaves as a deque with O(1) removal of a member.
// ===========================================================================
pub(crate) mod verif_list {
    use super::*;
    use crate::verif::common::*;

    pub const K: usize = 5;
    type N = ListNode<u8>;

    pub const W_REMOVE_MIDDLE: u32 = 1; // removed a node that had both neighbours
    pub const W_DRAIN3: u32 = 2; // drained a list of >= 3 nodes
    pub const W_REMOVE_NONMEMBER: u32 = 4;

    /// Structural validator + comparison with the model sequence `seq[0..len]` (head first).
    pub unsafe fn validate(list: &LinkedList<u8>, tab: &[*mut N; K], seq: &[usize; K], len: usize) {
        assert!(list.verif_len_checked(K) == Some(len), "C20 list: links inconsistent or length differs from the deque model");
        let mut inlist = [false; K];
        let mut i = 0;
        while i < len {
            // seq[i] is the i-th node from the head = (len-1-i)-th from the tail
            let pos = list.verif_pos_from_tail(tab[seq[i]] as *const N, K);
            assert!(pos == Some(len - 1 - i), "C20 list: order differs from the deque model");
            inlist[seq[i]] = true;
            i += 1;
        }
        i = 0;
        while i < K {
            if !inlist[i] {
                assert!((*tab[i]).verif_unlinked(), "C20 list: a node outside the list still carries links");
            }
            i += 1;
        }
        assert!(list.is_empty() == (len == 0), "C20 list: is_empty() differs from the deque model");
        match list.peek_first() {
            Some(n) => assert!(len > 0 && n as *const N == tab[seq[0]] as *const N, "C20 list: peek_first differs from the model"),
            None => assert!(len == 0, "C20 list: peek_first is None on a non-empty list"),
        }
        match list.peek_last() {
            Some(n) => assert!(len > 0 && n as *const N == tab[seq[len - 1]] as *const N, "C20 list: peek_last differs from the model"),
            None => assert!(len == 0, "C20 list: peek_last is None on a non-empty list"),
        }
        // the mutable observers name the same nodes (they are not used by the crate itself; nothing is written through them here)
        // (on a bitwise copy of the list header - head and tail pointers - because validate() only has a shared reference)
        let mut hdr = core::mem::ManuallyDrop::new(core::ptr::read(list as *const LinkedList<u8>));
        let lm: &mut LinkedList<u8> = &mut *hdr;
        let fm = lm.peek_first_mut().map(|n| n as *const N);
        let lmm = lm.peek_last_mut().map(|n| n as *const N);
        assert!(fm == list.peek_first().map(|n| n as *const N), "C20 list: peek_first_mut differs from peek_first (the front of the deque)");
        assert!(lmm == list.peek_last().map(|n| n as *const N), "C20 list: peek_last_mut differs from peek_last (the back of the deque)");
    }

    fn idx_of(tab: &[*mut N; K], p: *const N) -> usize {
        let mut i = 0;
        while i < K {
            if tab[i] as *const N == p { return i; }
            i += 1;
        }
        K
    }

    /// One operation on (list, model); shared by E-STEP and E-HIST. Returns witness bits.
    pub unsafe fn apply<S: Src>(s: &mut S, list: &mut LinkedList<u8>, tab: &[*mut N; K], seq: &mut [usize; K], len: &mut usize, kmax: usize) -> u32 {
        let op = s.below(6);
        let mut bits = 0;
        let mut member = [false; K];
        let mut i = 0;
        while i < *len { member[seq[i]] = true; i += 1; }
        match op {
            0 => {
                // add_front(non-member)
                let t = s.below(kmax as u8) as usize;
                s.assume(!member[t]);
                list.add_front(&mut *tab[t]);
                let mut j = *len;
                while j > 0 { seq[j] = seq[j - 1]; j -= 1; }
                seq[0] = t;
                *len += 1;
            }
            1 => {
                let r = list.remove_first().map(|n| n as *mut N as *const N);
                if *len == 0 {
                    assert!(r.is_none(), "C20 list: remove_first on an empty list returned a node");
                } else {
                    assert!(r == Some(tab[seq[0]] as *const N), "C20 list: remove_first did not return the head");
                    let mut j = 0;
                    while j + 1 < *len { seq[j] = seq[j + 1]; j += 1; }
                    *len -= 1;
                }
            }
            2 => {
                let r = list.remove_last().map(|n| n as *mut N as *const N);
                if *len == 0 {
                    assert!(r.is_none(), "C20 list: remove_last on an empty list returned a node");
                } else {
                    assert!(r == Some(tab[seq[*len - 1]] as *const N), "C20 list: remove_last did not return the tail");
                    *len -= 1;
                }
            }
            3 => {
                // remove(any node, member or not)
                let t = s.below(kmax as u8) as usize;
                let r = list.remove(&mut *tab[t]);
                assert!(r == member[t], "C20 list: remove() result differs from membership");
                if member[t] {
                    let mut j = 0;
                    let mut k = 0;
                    let mut at = 0;
                    while j < *len {
                        if seq[j] != t { seq[k] = seq[j]; k += 1; } else { at = j; }
                        j += 1;
                    }
                    if at > 0 && at + 1 < *len { bits |= W_REMOVE_MIDDLE; }
                    *len -= 1;
                } else {
                    bits |= W_REMOVE_NONMEMBER;
                }
            }
            4 => {
                let mut n = 0usize;
                let seqc = *seq;
                let l0 = *len;
                list.drain(|node| {
                    assert!(n < l0 && node as *mut N as *const N == tab[seqc[n]] as *const N, "C20 list: drain order differs from head-to-tail");
                    assert!(node.verif_unlinked(), "C20 list: drained node still carries links");
                    n += 1;
                });
                assert!(n == l0, "C20 list: drain visited a different number of nodes");
                if l0 >= 3 { bits |= W_DRAIN3; }
                *len = 0;
            }
            _ => {
                let mut n = 0usize;
                let seqc = *seq;
                let l0 = *len;
                list.reverse_drain(|node| {
                    assert!(n < l0 && node as *mut N as *const N == tab[seqc[l0 - 1 - n]] as *const N, "C20 list: reverse_drain order differs from tail-to-head");
                    assert!(node.verif_unlinked(), "C20 list: drained node still carries links");
                    n += 1;
                });
                assert!(n == l0, "C20 list: reverse_drain visited a different number of nodes");
                if l0 >= 3 { bits |= W_DRAIN3; }
                *len = 0;
            }
        }
        bits
    }

    /// E-HIST: up to n operations from the empty list over kmax nodes. Every operation's result is compared
    /// with the deque model; the structural validator runs after every operation natively (`every`), and
    /// once after a symbolically chosen stopping point in the model (one validator copy in the formula
    /// instead of n+1; every prefix is still covered because the stop is symbolic).
    pub fn hist<S: Src>(s: &mut S, n: usize, kmax: usize, every: bool) -> u32 {
        let mut n0 = ListNode::new(0u8);
        let mut n1 = ListNode::new(1u8);
        let mut n2 = ListNode::new(2u8);
        let mut n3 = ListNode::new(3u8);
        let mut n4 = ListNode::new(4u8);
        let tab: [*mut N; K] = [&mut n0, &mut n1, &mut n2, &mut n3, &mut n4];
        let mut list = LinkedList::<u8>::new();
        let mut seq = [0usize; K];
        let mut len = 0usize;
        let mut bits = 0;
        let mut step = 0;
        unsafe {
            while step < n && !s.exhausted() {
                step += 1;
                if s.u8() & 1 == 1 { break; }
                bits |= apply(s, &mut list, &tab, &mut seq, &mut len, kmax);
                if every { validate(&list, &tab, &seq, len); }
            }
            validate(&list, &tab, &seq, len);
        }
        s.reached(bits);
        bits
    }

    /// Constructive step: build ANY list over <= kmax nodes through real add_front calls (every well-formed
    /// list is reachable that way), then one arbitrary operation. A counterexample is a genuine history from
    /// the empty list and replays natively.
    pub fn buildstep<S: Src>(s: &mut S, kmax: usize) -> u32 {
        let mut n0 = ListNode::new(0u8);
        let mut n1 = ListNode::new(1u8);
        let mut n2 = ListNode::new(2u8);
        let mut n3 = ListNode::new(3u8);
        let mut n4 = ListNode::new(4u8);
        let tab: [*mut N; K] = [&mut n0, &mut n1, &mut n2, &mut n3, &mut n4];
        let mut list = LinkedList::<u8>::new();
        let mut seq = [0usize; K];
        let mut len = 0usize;
        let want = s.below(kmax as u8 + 1) as usize;
        let mut used = [false; K];
        let mut bits = 0;
        unsafe {
            while len < want {
                let t = s.below(kmax as u8) as usize;
                s.assume(!used[t]);
                used[t] = true;
                list.add_front(&mut *tab[t]);
                let mut j = len;
                while j > 0 { seq[j] = seq[j - 1]; j -= 1; }
                seq[0] = t;
                len += 1;
            }
            validate(&list, &tab, &seq, len);
            bits |= apply(s, &mut list, &tab, &mut seq, &mut len, kmax);
            validate(&list, &tab, &seq, len);
        }
        s.reached(bits);
        bits
    }

    #[no_mangle]
    pub fn fi_verif_replay_list(name: &str, cfg: u32, _p: u32, s: &mut ScriptSrc<'_>) -> bool {
        match name {
            "list_buildstep" => { buildstep(s, if cfg == 0 { K } else { cfg as usize }); }
            "list_hist" => { hist(s, 64, if cfg == 0 { K } else { cfg as usize }, true); }
            _ => return false,
        }
        true
    }

    #[cfg(kani)]
    mod proofs {
        use super::*;

        /// E-STEP: arbitrary well-formed list over a subset of the K nodes (links written directly from a
        /// symbolic membership + permutation), one operation, validator + model afterwards.
        fn step(kmax: usize) {
            let mut n0 = ListNode::new(0u8);
            let mut n1 = ListNode::new(1u8);
            let mut n2 = ListNode::new(2u8);
            let mut n3 = ListNode::new(3u8);
            let mut n4 = ListNode::new(4u8);
            let tab: [*mut N; K] = [&mut n0, &mut n1, &mut n2, &mut n3, &mut n4];
            let mut list = LinkedList::<u8>::new();
            // symbolic sequence of distinct nodes
            let len: usize = kani::any();
            kani::assume(len <= kmax);
            let mut seq: [usize; K] = kani::any();
            let mut i = 0;
            while i < K {
                kani::assume(seq[i] < kmax);
                let mut j = 0;
                while j < i {
                    if i < len { kani::assume(seq[i] != seq[j]); }
                    j += 1;
                }
                i += 1;
            }
            unsafe {
                i = 0;
                while i < len {
                    let me = tab[seq[i]];
                    (*me).prev = if i > 0 { NonNull::new(tab[seq[i - 1]]) } else { None };
                    (*me).next = if i + 1 < len { NonNull::new(tab[seq[i + 1]]) } else { None };
                    i += 1;
                }
                if len > 0 {
                    list.head = NonNull::new(tab[seq[0]]);
                    list.tail = NonNull::new(tab[seq[len - 1]]);
                }
                let mut len = len;
                validate(&list, &tab, &seq, len); // sanity of the builder
                let bits = apply(&mut KaniSrc, &mut list, &tab, &mut seq, &mut len, kmax);
                validate(&list, &tab, &seq, len);
                kani::cover!(bits & W_REMOVE_MIDDLE != 0, "W list step: middle node removed");
                kani::cover!(bits & W_DRAIN3 != 0, "W list step: drained >= 3 nodes");
                kani::cover!(bits & W_REMOVE_NONMEMBER != 0, "W list step: remove(non-member)");
            }
        }
        #[kani::proof]
        #[kani::unwind(7)]
        fn list_step_k4() { step(4) }
        #[kani::proof]
        #[kani::unwind(7)]
        fn list_step_k5() { step(5) }

        #[kani::proof]
        #[kani::unwind(7)]
        fn list_buildstep_k4() { let b = buildstep(&mut KaniSrc, 4); kani::cover!(b & W_REMOVE_MIDDLE != 0, "W list buildstep: middle node removed"); }
        #[kani::proof]
        #[kani::unwind(7)]
        fn list_buildstep_k5() { let b = buildstep(&mut KaniSrc, 5); kani::cover!(b & W_DRAIN3 != 0, "W list buildstep: drained >= 3 nodes"); }
        #[kani::proof]
        #[kani::unwind(7)]
        fn list_witness_buildstep_k4() {
            let b = buildstep(&mut KaniSrc, 4);
            assert!(b & W_REMOVE_MIDDLE == 0, "WITNESS reached");
        }
        #[kani::proof]
        #[kani::unwind(7)]
        fn list_hist_k3_n5() { let b = hist(&mut KaniSrc, 5, 3, false); kani::cover!(b & W_REMOVE_MIDDLE != 0, "W list hist: middle node removed"); }
        #[kani::proof]
        #[kani::unwind(7)]
        fn list_hist_k4_n6() { let b = hist(&mut KaniSrc, 6, 4, false); kani::cover!(b & W_REMOVE_MIDDLE != 0, "W list hist: middle node removed"); }
        #[kani::proof]
        #[kani::unwind(9)]
        fn list_hist_k5_n8() { let b = hist(&mut KaniSrc, 8, 5, false); kani::cover!(b & W_DRAIN3 != 0, "W list hist: drained >= 3 nodes"); }
        #[kani::proof]
        #[kani::unwind(7)]
        fn list_witness_k4_n5() {
            let b = hist(&mut KaniSrc, 5, 4, false);
            assert!(b & W_REMOVE_MIDDLE == 0, "WITNESS reached");
        }
    }
}

// Included at the end of /repo/src/intrusive_double_linked_list.rs under
// cfg(futures_intrusive_verif): read-only link accessors for the structural
// validators, and the C20 list harnesses.

impl<T> ListNode<T> {
    pub(crate) fn verif_prev(&self) -> Option<NonNull<ListNode<T>>> {
        self.prev
    }
    pub(crate) fn verif_next(&self) -> Option<NonNull<ListNode<T>>> {
        self.next
    }
    pub(crate) fn verif_unlinked(&self) -> bool {
        self.prev.is_none() && self.next.is_none()
    }
}

impl<T> LinkedList<T> {
    pub(crate) fn verif_head(&self) -> Option<NonNull<ListNode<T>>> {
        self.head
    }
    pub(crate) fn verif_tail(&self) -> Option<NonNull<ListNode<T>>> {
        self.tail
    }
    /// Position of `node` counted from the tail (oldest = 0), walking at most
    /// `max` links; None if it is not reached.
    pub(crate) fn verif_pos_from_tail(&self, node: *const ListNode<T>, max: usize) -> Option<usize> {
        let mut cur = self.tail;
        let mut i = 0;
        while i < max {
            match cur {
                None => return None,
                Some(p) => {
                    if p.as_ptr() as *const ListNode<T> == node {
                        return Some(i);
                    }
                    cur = unsafe { p.as_ref().prev };
                }
            }
            i += 1;
        }
        None
    }
    /// Number of nodes reachable from the tail within `max` links (max+1 = too long / cyclic),
    /// checking prev/next mutual consistency on the way.
    pub(crate) fn verif_len_checked(&self, max: usize) -> Option<usize> {
        let mut cur = self.tail;
        let mut newer: Option<NonNull<ListNode<T>>> = None; // the node we came from (towards tail)
        let mut i = 0;
        while i <= max {
            match cur {
                None => {
                    // reached the head end: head must be the last node visited
                    if self.head != newer {
                        return None;
                    }
                    return Some(i);
                }
                Some(p) => {
                    let n = unsafe { p.as_ref() };
                    if n.next != newer {
                        return None;
                    }
                    newer = Some(p);
                    cur = n.prev;
                }
            }
            i += 1;
        }
        None
    }
}

// Included at the end of /repo/src/buffer/ring_buffer.rs under cfg(futures_intrusive_verif).
// C19: ring buffers are exact bounded FIFOs and drop every element exactly once.

pub(crate) mod verif_ring {
    use super::*;
    use crate::verif::common::*;

    pub const W_WRAP: u32 = 1; // an element was pushed after the write index wrapped around
    pub const W_FULL_THEN_POP: u32 = 2; // buffer became full and was popped afterwards
    pub const W_DROP_NONEMPTY: u32 = 4; // the buffer was dropped with elements inside

    /// E-HIST over the public RingBuf API: n push/pop operations on a fresh buffer of capacity `cap`
    /// against a FIFO model; at the end the buffer is dropped and the drop counters are checked.
    pub fn hist<B: RingBuf<Item = Tag>, S: Src>(s: &mut S, cap: usize, n: usize, p: u32) -> u32 {
        #[cfg(not(kani))]
        reset_tags(); // (statics start zeroed in every proof harness)
        let mut buf = B::with_capacity(cap);
        // C18: between construction and destruction a non-growing buffer never reaches the allocator
        if (p & P18) != 0 { arm_alloc(); }
        let mut model = [0u8; 8];
        let mut len = 0usize;
        let mut next: u8 = 0;
        let mut pushed_total = 0usize;
        let mut was_full = false;
        let mut bits = 0;
        assert!(buf.capacity() == cap, "C19 ring buffer: capacity() differs from the requested capacity");
        let mut step = 0;
        while step < n && !s.exhausted() {
            step += 1;
            let op = s.below(2);
            if op == 0 {
                s.assume(len < cap && next < 15);
                assert!(buf.can_push(), "C19 ring buffer: can_push() is false although fewer than capacity elements are stored");
                buf.push(Tag(next));
                model[len] = next;
                len += 1;
                next += 1;
                pushed_total += 1;
                if pushed_total > cap && cap > 0 { bits |= W_WRAP; }
                if len == cap { was_full = true; }
            } else {
                s.assume(len > 0);
                assert!(!buf.is_empty(), "C19 ring buffer: is_empty() although elements are stored");
                let t = buf.pop();
                assert!(t.0 == model[0], "C19 ring buffer: pop() did not return the oldest element");
                core::mem::forget(t);
                let mut j = 0;
                while j + 1 < len { model[j] = model[j + 1]; j += 1; }
                len -= 1;
                if was_full { bits |= W_FULL_THEN_POP; }
            }
            assert!(buf.len() == len, "C19 ring buffer: len() differs from the number of stored elements");
            assert!(buf.is_empty() == (len == 0), "C19 ring buffer: is_empty() inconsistent");
            assert!(buf.can_push() == (len < cap), "C19 ring buffer: can_push() inconsistent");
            assert!(buf.capacity() == cap, "C19 ring buffer: capacity() changed");
            if (p & P18) != 0 { assert!(alloc_events() == 0, "C18 ring buffer: push/pop on a non-growing buffer allocated or freed heap memory"); }
        }
        if len > 0 { bits |= W_DROP_NONEMPTY; }
        if (p & P18) != 0 { disarm_alloc(); }
        drop(buf);
        // every element still inside was dropped exactly once, popped ones not at all
        let mut id: u8 = 0;
        while id < next {
            let mut inside = false;
            let mut j = 0;
            while j < len { if model[j] == id { inside = true; } j += 1; }
            assert!(tag_drops(id) == (if inside { 1 } else { 0 }), "C19 ring buffer: an element was not dropped exactly once (or a popped one was dropped)");
            id += 1;
        }
        s.reached(bits);
        bits
    }

    /// zero-sized drop-counting element (VecDeque reports capacity usize::MAX for zero-sized types)
    pub struct ZTag;
    pub static ZDROPS: core::sync::atomic::AtomicU32 = core::sync::atomic::AtomicU32::new(0);
    impl Drop for ZTag {
        fn drop(&mut self) {
            let v = ZDROPS.load(core::sync::atomic::Ordering::Relaxed);
            ZDROPS.store(v + 1, core::sync::atomic::Ordering::Relaxed);
        }
    }
    /// same history as `hist` for buffers of zero-sized elements: counts only (no identity)
    pub fn hist_zst<B: RingBuf<Item = ZTag>, S: Src>(s: &mut S, cap: usize, n: usize) -> u32 {
        ZDROPS.store(0, core::sync::atomic::Ordering::Relaxed);
        let mut buf = B::with_capacity(cap);
        let mut len = 0usize;
        assert!(buf.capacity() == cap, "C19 ring buffer (zero-sized items): capacity() differs from the requested capacity");
        let mut step = 0;
        while step < n && !s.exhausted() {
            step += 1;
            // the observers first: a full buffer must refuse further elements
            assert!(buf.can_push() == (len < cap), "C19 ring buffer (zero-sized items): can_push() inconsistent with len() and capacity()");
            assert!(buf.len() == len && buf.is_empty() == (len == 0), "C19 ring buffer (zero-sized items): len()/is_empty() wrong");
            let op = s.below(2);
            if op == 0 {
                s.assume(len < cap);
                buf.push(ZTag);
                len += 1;
            } else {
                s.assume(len > 0);
                core::mem::forget(buf.pop());
                len -= 1;
            }
        }
        assert!(buf.can_push() == (len < cap), "C19 ring buffer (zero-sized items): can_push() inconsistent with len() and capacity()");
        drop(buf);
        assert!(ZDROPS.load(core::sync::atomic::Ordering::Relaxed) as usize == len, "C19 ring buffer (zero-sized items): stored elements not dropped exactly once");
        s.reached(len as u32);
        len as u32
    }

    // User-defined RealArray sizes (the trait is public and documented for exactly that): above 64 and not a power of two.
    macro_rules! big_array {
        ($name:ident, $n:expr) => {
            pub struct $name(pub [u8; $n]);
            impl AsRef<[u8]> for $name { fn as_ref(&self) -> &[u8] { &self.0 } }
            impl AsMut<[u8]> for $name { fn as_mut(&mut self) -> &mut [u8] { &mut self.0 } }
            unsafe impl RealArray<u8> for $name { const LEN: usize = $n; }
        };
    }
    big_array!(Arr65, 65);
    big_array!(Arr96, 96);
    big_array!(Arr100, 100);
    /// C19 index arithmetic at the function level for large capacities: next_idx(i) = (i + 1) mod capacity for every i,
    /// and a push/pop pair at an arbitrary ring position keeps FIFO order (u8 payload, no drop glue).
    pub fn next_idx_check<A: AsRef<[u8]> + AsMut<[u8]> + RealArray<u8>, S: Src>(s: &mut S) -> u32 {
        let mut b = ArrayBuf::<u8, A>::new();
        let n = A::LEN;
        let i = s.below(128) as usize;
        s.assume(i < n);
        assert!(b.capacity() == n, "C19 ArrayBuf: capacity() differs from RealArray::LEN");
        assert!(b.next_idx(i) == (i + 1) % n, "C19 ArrayBuf: next_idx() does not advance by one modulo the capacity");
        // place the ring at position i and run two pushes and two pops across it
        b.recv_idx = i;
        b.send_idx = i;
        b.size = 0;
        b.push(7);
        b.push(9);
        assert!(b.len() == 2 && b.send_idx == (i + 2) % n, "C19 ArrayBuf: push did not advance the write index modulo the capacity");
        let x = b.pop();
        let y = b.pop();
        assert!(x == 7 && y == 9 && b.is_empty() && b.recv_idx == (i + 2) % n, "C19 ArrayBuf: pop order or read index wrong across the wrap-around");
        s.reached(i as u32);
        i as u32
    }

    #[no_mangle]
    pub fn fi_verif_replay_ring(name: &str, cfg: u32, p: u32, s: &mut ScriptSrc<'_>) -> bool {
        let cap = cfg as usize;
        match (name, cap) {
            ("ring_next_idx", 65) => { next_idx_check::<Arr65, _>(s); }
            ("ring_next_idx", 96) => { next_idx_check::<Arr96, _>(s); }
            ("ring_next_idx", 100) => { next_idx_check::<Arr100, _>(s); }
            ("ring_hist_array", 0) => { hist::<ArrayBuf<Tag, [Tag; 0]>, _>(s, 0, 64, p); }
            ("ring_hist_array", 1) => { hist::<ArrayBuf<Tag, [Tag; 1]>, _>(s, 1, 64, p); }
            ("ring_hist_array", 2) => { hist::<ArrayBuf<Tag, [Tag; 2]>, _>(s, 2, 64, p); }
            ("ring_hist_array", 3) => { hist::<ArrayBuf<Tag, [Tag; 3]>, _>(s, 3, 64, p); }
            ("ring_hist_array", 4) => { hist::<ArrayBuf<Tag, [Tag; 4]>, _>(s, 4, 64, p); }
            ("ring_hist_array", 5) => { hist::<ArrayBuf<Tag, [Tag; 5]>, _>(s, 5, 64, p); }
            #[cfg(feature = "alloc")]
            ("ring_zst_fixed", _) => { hist_zst::<FixedHeapBuf<ZTag>, _>(s, cap, 64); }
            #[cfg(feature = "alloc")]
            ("ring_zst_growing", _) => { hist_zst::<GrowingHeapBuf<ZTag>, _>(s, cap, 64); }
            ("ring_zst_array", 2) => { hist_zst::<ArrayBuf<ZTag, [ZTag; 2]>, _>(s, 2, 64); }
            #[cfg(feature = "alloc")]
            ("ring_hist_fixed", _) => { hist::<FixedHeapBuf<Tag>, _>(s, cap, 64, p); }
            #[cfg(feature = "alloc")]
            ("ring_hist_growing", _) => { hist::<GrowingHeapBuf<Tag>, _>(s, cap, 64, p); }
            _ => return false,
        }
        true
    }

    #[cfg(kani)]
    mod proofs {
        use super::*;

        /// E-STEP for ArrayBuf<Tag,[Tag;C]>: symbolic size / recv_idx / send_idx and contents under the
        /// representation invariant, one push | pop | Drop.
        macro_rules! array_step {
            (@cover 0, $e:expr) => {};
            (@cover 1, $e:expr) => {};
            (@cover $c:tt, $e:expr) => { kani::cover!($e, "W ArrayBuf step: write index wrapped"); };
            ($name:ident, $c:tt) => {
                #[kani::proof]
                #[kani::unwind(8)]
                fn $name() {
                    const C: usize = $c;
                    let mut buf = ArrayBuf::<Tag, [Tag; C]>::new();
                    let size: usize = kani::any();
                    let recv: usize = kani::any();
                    let send: usize = kani::any();
                    kani::assume(size <= C);
                    if C == 0 {
                        kani::assume(recv == 0 && send == 0);
                    } else {
                        kani::assume(recv < C && send == (recv + size) % C);
                    }
                    buf.size = size;
                    buf.recv_idx = recv;
                    buf.send_idx = send;
                    // logical element j (oldest first) carries id j
                    let mut j = 0;
                    while j < size {
                        unsafe { (buf.buffer.as_mut_ptr() as *mut Tag).add((recv + j) % C.max(1)).write(Tag(j as u8)); }
                        j += 1;
                    }
                    let op: u8 = kani::any();
                    kani::assume(op < 3);
                    let mut exp_first = 0u8; // id of the expected oldest element afterwards
                    let mut exp_len = size;
                    let mut pushed = false;
                    if op == 0 {
                        kani::assume(size < C);
                        assert!(buf.can_push(), "C19 ArrayBuf step: can_push() false with free space");
                        buf.push(Tag(9));
                        exp_len = size + 1;
                        pushed = true;
                    } else if op == 1 {
                        kani::assume(size > 0);
                        let t = buf.pop();
                        assert!(t.0 == 0, "C19 ArrayBuf step: pop() did not return the oldest element");
                        core::mem::forget(t);
                        exp_first = 1;
                        exp_len = size - 1;
                    } else {
                        drop(buf);
                        let mut id = 0u8;
                        while (id as usize) < C {
                            assert!(tag_drops(id) == (if (id as usize) < size { 1 } else { 0 }),
                                "C19 ArrayBuf step: Drop did not drop exactly the stored elements once each");
                            id += 1;
                        }
                        assert!(tag_drops(9) == 0, "C19 ArrayBuf step: Drop touched an element that is not stored");
                        return;
                    }
                    // invariant + observers
                    assert!(buf.size == exp_len && buf.len() == exp_len, "C19 ArrayBuf step: len() wrong after the operation");
                    assert!(buf.is_empty() == (exp_len == 0), "C19 ArrayBuf step: is_empty() inconsistent");
                    assert!(buf.can_push() == (exp_len < C), "C19 ArrayBuf step: can_push() inconsistent");
                    assert!(buf.capacity() == C, "C19 ArrayBuf step: capacity() wrong");
                    if C > 0 {
                        assert!(buf.recv_idx < C && buf.send_idx == (buf.recv_idx + buf.size) % C,
                            "C19 ArrayBuf step: index invariant broken (wrap-around)");
                    }
                    // logical sequence = old sequence minus the popped / plus the pushed element
                    let mut j = 0;
                    while j < exp_len {
                        let id = unsafe { (*(buf.buffer.as_ptr() as *const Tag).add((buf.recv_idx + j) % C.max(1))).0 };
                        let want = if pushed && j == exp_len - 1 { 9 } else { exp_first + j as u8 };
                        assert!(id == want, "C19 ArrayBuf step: stored sequence differs from the FIFO model");
                        j += 1;
                    }
                    let mut id = 0u8;
                    while (id as usize) < C {
                        assert!(tag_drops(id) == 0, "C19 ArrayBuf step: push/pop dropped an element");
                        id += 1;
                    }
                    array_step!(@cover $c, pushed && buf.send_idx == 0);
                    core::mem::forget(buf);
                }
            };
        }
        #[kani::proof]
        #[kani::unwind(3)]
        fn next_idx_65() { let _ = next_idx_check::<Arr65, _>(&mut KaniSrc); }
        #[kani::proof]
        #[kani::unwind(3)]
        fn next_idx_96() { let i = next_idx_check::<Arr96, _>(&mut KaniSrc); kani::cover!(i == 95, "W next_idx: last slot"); }
        #[kani::proof]
        #[kani::unwind(3)]
        fn next_idx_100() { let _ = next_idx_check::<Arr100, _>(&mut KaniSrc); }
        array_step!(array_step_c0, 0);
        array_step!(array_step_c1, 1);
        array_step!(array_step_c2, 2);
        array_step!(array_step_c3, 3);
        array_step!(array_step_c4, 4);
        array_step!(array_step_c5, 5);
        array_step!(array_step_c6, 6);
        array_step!(array_step_c7, 7);

        macro_rules! hist_proof {
            (@cover 0, $b:expr) => { let _ = $b; };
            (@cover $wit:tt, $b:expr) => { kani::cover!($b & $wit != 0, "W ring hist: interesting sequence reached"); };
            ($name:ident, $ty:ty, $cap:expr, $n:expr, $unw:expr, $wit:tt) => {
                #[kani::proof]
                #[kani::unwind($unw)]
                fn $name() {
                    let b = hist::<$ty, _>(&mut KaniSrc, $cap, $n, 0);
                    hist_proof!(@cover $wit, b);
                }
            };
        }
        hist_proof!(array_hist_c0, ArrayBuf<Tag, [Tag; 0]>, 0, 2, 6, 0);
        hist_proof!(array_hist_c1, ArrayBuf<Tag, [Tag; 1]>, 1, 4, 6, W_WRAP);
        hist_proof!(array_hist_c2, ArrayBuf<Tag, [Tag; 2]>, 2, 6, 8, W_WRAP);
        hist_proof!(array_hist_c3, ArrayBuf<Tag, [Tag; 3]>, 3, 8, 10, W_WRAP);
        hist_proof!(array_hist_c4, ArrayBuf<Tag, [Tag; 4]>, 4, 10, 12, W_WRAP);
        hist_proof!(array_hist_c5, ArrayBuf<Tag, [Tag; 5]>, 5, 12, 14, W_WRAP);
        hist_proof!(fixed_hist_c0, FixedHeapBuf<Tag>, 0, 2, 6, 0);
        hist_proof!(fixed_hist_c1, FixedHeapBuf<Tag>, 1, 4, 6, W_FULL_THEN_POP);
        hist_proof!(fixed_hist_c2, FixedHeapBuf<Tag>, 2, 6, 8, W_FULL_THEN_POP);
        hist_proof!(fixed_hist_c3, FixedHeapBuf<Tag>, 3, 6, 8, W_FULL_THEN_POP);
        hist_proof!(fixed_hist_c1_n3, FixedHeapBuf<Tag>, 1, 3, 6, W_FULL_THEN_POP);
        hist_proof!(fixed_hist_c2_n3, FixedHeapBuf<Tag>, 2, 3, 6, W_FULL_THEN_POP);
        hist_proof!(growing_hist_c2_n3, GrowingHeapBuf<Tag>, 2, 3, 6, W_FULL_THEN_POP);
        hist_proof!(fixed_hist_c2_n4, FixedHeapBuf<Tag>, 2, 4, 6, W_FULL_THEN_POP);
        hist_proof!(growing_hist_c1_n3, GrowingHeapBuf<Tag>, 1, 3, 6, W_FULL_THEN_POP);
        hist_proof!(growing_hist_c2_n4, GrowingHeapBuf<Tag>, 2, 4, 6, W_FULL_THEN_POP);
        hist_proof!(growing_hist_c0, GrowingHeapBuf<Tag>, 0, 2, 6, 0);
        hist_proof!(growing_hist_c1, GrowingHeapBuf<Tag>, 1, 4, 6, W_FULL_THEN_POP);
        hist_proof!(growing_hist_c2, GrowingHeapBuf<Tag>, 2, 6, 8, W_FULL_THEN_POP);
        hist_proof!(growing_hist_c3, GrowingHeapBuf<Tag>, 3, 6, 8, W_FULL_THEN_POP);

        // C18: FixedHeapBuf pre-allocates - filling it completely never reaches the allocator (counting stubs)
        macro_rules! c18_proof {
            ($name:ident, $ty:ty, $cap:expr, $n:expr, $unw:expr) => {
                #[kani::proof]
                #[kani::unwind($unw)]
                #[kani::stub(alloc::alloc::alloc, crate::verif::common::stub_alloc)]
                #[kani::stub(alloc::alloc::dealloc, crate::verif::common::stub_dealloc)]
                #[kani::stub(alloc::alloc::realloc, crate::verif::common::stub_realloc)]
                #[kani::stub(alloc::fmt::format, crate::verif::common::stub_format)]
                fn $name() {
                    let b = hist::<$ty, _>(&mut KaniSrc, $cap, $n, P18);
                    kani::cover!(b & W_FULL_THEN_POP != 0, "W ring hist: the buffer became full and was popped");
                }
            };
        }
        c18_proof!(fixed_c18_c1_n3, FixedHeapBuf<Tag>, 1, 3, 6);
        c18_proof!(fixed_c18_c2_n3, FixedHeapBuf<Tag>, 2, 3, 6);
        c18_proof!(array_c18_c2_n4, ArrayBuf<Tag, [Tag; 2]>, 2, 4, 6);

        #[kani::proof]
        #[kani::unwind(6)]
        fn zst_fixed_c0() { let _ = hist_zst::<FixedHeapBuf<ZTag>, _>(&mut KaniSrc, 0, 2); }
        #[kani::proof]
        #[kani::unwind(6)]
        fn zst_fixed_c2() { let _ = hist_zst::<FixedHeapBuf<ZTag>, _>(&mut KaniSrc, 2, 4); }
        #[kani::proof]
        #[kani::unwind(6)]
        fn zst_growing_c2() { let _ = hist_zst::<GrowingHeapBuf<ZTag>, _>(&mut KaniSrc, 2, 4); }
        #[kani::proof]
        #[kani::unwind(6)]
        fn zst_array_c2() { let _ = hist_zst::<ArrayBuf<ZTag, [ZTag; 2]>, _>(&mut KaniSrc, 2, 4); }
        #[kani::proof]
        #[kani::unwind(8)]
        fn array_witness_c2() {
            let b = hist::<ArrayBuf<Tag, [Tag; 2]>, _>(&mut KaniSrc, 2, 5, 0);
            assert!(b & (W_WRAP | W_DROP_NONEMPTY) != (W_WRAP | W_DROP_NONEMPTY), "WITNESS reached");
        }
    }
}

// verification harness include for ring_buffer (see /verif/DESIGN.md)

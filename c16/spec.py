"""Hand-written specification for C16 (the only hand-written part; DESIGN.md section 6 / C16).

For every public primitive, future, guard, releaser, handle and stream: what is exposed to another
thread when a value of the type is sent there (Send) or shared there (Sync), as a necessary condition
over the trait atoms of its type parameters, and what the crate documents/tests as Send/Sync for a
thread-safe lock and Send payloads (sufficient side, regression).

Atoms: send_M sync_M (lock type), send_T sync_T (payload), send_A (ring buffer type).
nec_send / nec_sync: formula that MUST hold whenever rustc says X: Send / X: Sync   (None = nothing demanded)
suf_send / suf_sync: under `DOC` (= send_M & sync_M & send_T & send_A) rustc must still say X: Send / Sync
pub: how to name the type from outside the crate ({M} {T} {A} are replaced by witness types).
"""

DOC = "(and send_M sync_M send_T send_A)"

# moving the primitive moves the raw lock and the payload it owns; sharing it lets another thread lock it and
# take/put payload values
PRIM_T = dict(nec_send="(and send_M send_T)", nec_sync="(and sync_M send_T)", suf_send=True, suf_sync=True)
PRIM = dict(nec_send="send_M", nec_sync="sync_M", suf_send=True, suf_sync=True)
# a future/guard/releaser/handle that reaches the primitive by reference or Arc: used from the other thread it
# locks the shared state there (sync_M) and yields or exposes payload values there (send_T)
FUT_T = dict(nec_send="(and sync_M send_T)", nec_sync=None, suf_send=True, suf_sync=False)
FUT = dict(nec_send="sync_M", nec_sync=None, suf_send=True, suf_sync=False)

ROWS = [
    # ---- sync::mutex
    dict(path="sync::mutex::GenericMutex", pub="futures_intrusive::sync::GenericMutex<{M}, {T}>", **PRIM_T),
    dict(path="sync::mutex::GenericMutexGuard", pub="futures_intrusive::sync::GenericMutexGuard<'static, {M}, {T}>",
         nec_send="(and sync_M send_T)", nec_sync="sync_T", suf_send=True, suf_sync=False),
    dict(path="sync::mutex::GenericMutexLockFuture", pub="futures_intrusive::sync::GenericMutexLockFuture<'static, {M}, {T}>", **FUT_T),
    # ---- sync::semaphore
    dict(path="sync::semaphore::GenericSemaphore", pub="futures_intrusive::sync::GenericSemaphore<{M}>", **PRIM),
    dict(path="sync::semaphore::GenericSemaphoreReleaser", pub="futures_intrusive::sync::GenericSemaphoreReleaser<'static, {M}>", **FUT),
    dict(path="sync::semaphore::GenericSemaphoreAcquireFuture", pub="futures_intrusive::sync::GenericSemaphoreAcquireFuture<'static, {M}>", **FUT),
    dict(path="sync::semaphore::if_alloc::GenericSharedSemaphore", pub="futures_intrusive::sync::GenericSharedSemaphore<{M}>",
         nec_send="sync_M", nec_sync="sync_M", suf_send=True, suf_sync=True),
    dict(path="sync::semaphore::if_alloc::GenericSharedSemaphoreReleaser", pub="futures_intrusive::sync::GenericSharedSemaphoreReleaser<{M}>", **FUT),
    dict(path="sync::semaphore::if_alloc::GenericSharedSemaphoreAcquireFuture", pub="futures_intrusive::sync::GenericSharedSemaphoreAcquireFuture<{M}>", **FUT),
    # ---- sync::manual_reset_event
    dict(path="sync::manual_reset_event::GenericManualResetEvent", pub="futures_intrusive::sync::GenericManualResetEvent<{M}>", **PRIM),
    dict(path="sync::manual_reset_event::GenericWaitForEventFuture", pub="futures_intrusive::sync::GenericWaitForEventFuture<'static, {M}>", **FUT),
    # ---- channel::mpmc
    dict(path="channel::mpmc::GenericChannel", pub="futures_intrusive::channel::GenericChannel<{M}, {T}, {A}>",
         nec_send="(and send_M send_T send_A)", nec_sync="(and sync_M send_T send_A)", suf_send=True, suf_sync=True),
    dict(path="channel::channel_future::ChannelReceiveFuture", pub="futures_intrusive::channel::ChannelReceiveFuture<'static, {M}, {T}>", **FUT_T),
    dict(path="channel::channel_future::ChannelSendFuture", pub="futures_intrusive::channel::ChannelSendFuture<'static, {M}, {T}>", **FUT_T),
    dict(path="channel::channel_future::if_alloc::shared::ChannelReceiveFuture", pub="futures_intrusive::channel::shared::ChannelReceiveFuture<{M}, {T}>", **FUT_T),
    dict(path="channel::channel_future::if_alloc::shared::ChannelSendFuture", pub="futures_intrusive::channel::shared::ChannelSendFuture<{M}, {T}>", **FUT_T),
    dict(path="channel::mpmc::ChannelStream", pub="futures_intrusive::channel::ChannelStream<'static, {M}, {T}, {A}>",
         nec_send="(and sync_M send_T send_A)", nec_sync=None, suf_send=True, suf_sync=False),
    dict(path="channel::mpmc::if_alloc::shared::GenericSender", pub="futures_intrusive::channel::shared::GenericSender<{M}, {T}, {A}>",
         nec_send="(and sync_M send_T send_A)", nec_sync="(and sync_M send_T send_A)", suf_send=True, suf_sync=True),
    dict(path="channel::mpmc::if_alloc::shared::GenericReceiver", pub="futures_intrusive::channel::shared::GenericReceiver<{M}, {T}, {A}>",
         nec_send="(and sync_M send_T send_A)", nec_sync="(and sync_M send_T send_A)", suf_send=True, suf_sync=True),
    dict(path="channel::mpmc::if_alloc::shared::SharedStream", pub="futures_intrusive::channel::shared::SharedStream<{M}, {T}, {A}>",
         nec_send="(and sync_M send_T send_A)", nec_sync=None, suf_send=True, suf_sync=False),
    # ---- oneshot / oneshot broadcast / state broadcast
    dict(path="channel::oneshot::GenericOneshotChannel", pub="futures_intrusive::channel::GenericOneshotChannel<{M}, {T}>", **PRIM_T),
    dict(path="channel::oneshot::if_alloc::shared::GenericOneshotSender", pub="futures_intrusive::channel::shared::GenericOneshotSender<{M}, {T}>",
         nec_send="(and sync_M send_T)", nec_sync="(and sync_M send_T)", suf_send=True, suf_sync=True),
    dict(path="channel::oneshot::if_alloc::shared::GenericOneshotReceiver", pub="futures_intrusive::channel::shared::GenericOneshotReceiver<{M}, {T}>",
         nec_send="(and sync_M send_T)", nec_sync="(and sync_M send_T)", suf_send=True, suf_sync=True),
    dict(path="channel::oneshot_broadcast::GenericOneshotBroadcastChannel", pub="futures_intrusive::channel::GenericOneshotBroadcastChannel<{M}, {T}>", **PRIM_T),
    dict(path="channel::oneshot_broadcast::if_alloc::shared::GenericOneshotBroadcastSender",
         pub="futures_intrusive::channel::shared::GenericOneshotBroadcastSender<{M}, {T}>",
         nec_send="(and sync_M send_T)", nec_sync="(and sync_M send_T)", suf_send=True, suf_sync=True),
    dict(path="channel::oneshot_broadcast::if_alloc::shared::GenericOneshotBroadcastReceiver",
         pub="futures_intrusive::channel::shared::GenericOneshotBroadcastReceiver<{M}, {T}>",
         nec_send="(and sync_M send_T)", nec_sync="(and sync_M send_T)", suf_send=True, suf_sync=True),
    dict(path="channel::state_broadcast::GenericStateBroadcastChannel", pub="futures_intrusive::channel::GenericStateBroadcastChannel<{M}, {T}>", **PRIM_T),
    dict(path="channel::state_broadcast::StateReceiveFuture", pub="futures_intrusive::channel::StateReceiveFuture<'static, {M}, {T}>", **FUT_T),
    dict(path="channel::state_broadcast::if_alloc::shared::StateReceiveFuture", pub="futures_intrusive::channel::shared::StateReceiveFuture<{M}, {T}>", **FUT_T),
    dict(path="channel::state_broadcast::if_alloc::shared::GenericStateSender", pub="futures_intrusive::channel::shared::GenericStateSender<{M}, {T}>",
         nec_send="(and sync_M send_T)", nec_sync="(and sync_M send_T)", suf_send=True, suf_sync=True),
    dict(path="channel::state_broadcast::if_alloc::shared::GenericStateReceiver", pub="futures_intrusive::channel::shared::GenericStateReceiver<{M}, {T}>",
         nec_send="(and sync_M send_T)", nec_sync="(and sync_M send_T)", suf_send=True, suf_sync=True),
    # ---- timer
    dict(path="timer::timer::GenericTimerService", pub="futures_intrusive::timer::GenericTimerService<{M}>", **PRIM),
    # a LocalTimerFuture can come from a service with any lock type (it erases it): never Send
    dict(path="timer::timer::LocalTimerFuture", pub="futures_intrusive::timer::LocalTimerFuture<'static>",
         nec_send="false", nec_sync=None, suf_send=False, suf_sync=False),
    # TimerFuture: Send unconditionally is admitted only because every function returning one sits in an impl that
    # demands `Sync` of the lock type (GATED obligation, read from the impl table)
    dict(path="timer::timer::TimerFuture", pub="futures_intrusive::timer::TimerFuture<'static>",
         nec_send=None, nec_sync=None, suf_send=True, suf_sync=False, gated_constructors=True),
]

# the lock type of the Local* aliases, instantiated from the same table (NoopLock must be neither Send nor Sync);
# every row that has an M parameter must then be !Send, and primitives/handles !Sync
LOCAL_LOCK = "noop_lock::NoopLock"

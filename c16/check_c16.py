#!/usr/bin/env python3
"""C16: trait-membership formulas regenerated from rustc's impl table of /repo (rustdoc JSON incl. the
auto-trait impls rustc synthesised), decided by z3 and cross-checked by cvc5; every satisfiable
soundness query is replayed by compiling a probe crate with witness types (rustc's verdict is the replay).
DESIGN.md section 6 / C16."""
import hashlib
import itertools
import json
import os
import re
import shutil
import subprocess
import sys
import tempfile
import time

HERE = os.path.dirname(os.path.abspath(__file__))
VERIF = os.path.dirname(HERE)
REPO = os.environ.get("VERIF_REPO", "/repo")
sys.path.insert(0, HERE)
import extract  # noqa: E402
import spec  # noqa: E402

ROLE = {"MutexType": "M", "T": "T", "A": "A"}
IGNORED_BOUNDS = {"RawMutex", "RingBuf", "Clone", "Sized"}


class Inconclusive(Exception):
    pass


def env_offline():
    e = dict(os.environ)
    e["CARGO_NET_OFFLINE"] = "true"
    e.pop("RUSTFLAGS", None)
    e.pop("CARGO_TARGET_DIR", None)
    return e


# ---------------------------------------------------------------------------
# formulas
# ---------------------------------------------------------------------------

def impl_formula(ent, trait):
    """-> (smt string, python lambda env->bool)"""
    disj = []
    for imp in ent["impls"][trait]:
        if imp["unknown"]:
            raise Inconclusive("impl of %s for %s uses a clause outside the fragment: %s" % (trait, ent["path"], imp["unknown"]))
        if imp["negative"]:
            continue
        conj = []
        for (param, bound) in imp["atoms"]:
            if bound in IGNORED_BOUNDS:
                continue
            if bound not in ("Send", "Sync", "Unpin"):
                raise Inconclusive("bound %s: %s on impl %s for %s is outside the fragment" % (param, bound, trait, ent["path"]))
            if param not in ROLE:
                raise Inconclusive("unknown type parameter %s in impl %s for %s" % (param, trait, ent["path"]))
            conj.append("%s_%s" % (bound.lower(), ROLE[param]))
        disj.append(sorted(set(conj)))
    if not disj:
        return "false", (lambda env: False), disj
    smt = "(or " + " ".join("(and true " + " ".join(c) + ")" for c in disj) + ")"
    return smt, (lambda env, disj=disj: any(all(env[a] for a in c) for c in disj)), disj


def py_eval(smt, env):
    """evaluate the tiny s-expression fragment used in spec.py"""
    toks = re.findall(r"\(|\)|[^\s()]+", smt)
    pos = 0

    def parse():
        nonlocal pos
        t = toks[pos]
        pos += 1
        if t == "(":
            op = toks[pos]
            pos += 1
            args = []
            while toks[pos] != ")":
                args.append(parse())
            pos += 1
            if op == "and":
                return all(args)
            if op == "or":
                return any(args)
            if op == "not":
                return not args[0]
            raise ValueError(op)
        if t == "true":
            return True
        if t == "false":
            return False
        return env[t]
    return parse()


ATOMS = ["send_M", "sync_M", "unpin_M", "send_T", "sync_T", "unpin_T", "send_A", "sync_A", "unpin_A"]


def run_solver(cmd, script):
    p = subprocess.run(cmd, input=script.encode(), stdout=subprocess.PIPE, stderr=subprocess.STDOUT, timeout=300)
    return p.stdout.decode(errors="replace")


def parse_solver(out):
    """-> {qid: (verdict, model dict)}; any (error line => raises"""
    if "(error" in out:
        raise Inconclusive("solver reported an error: " + out[out.index("(error"):][:200])
    res = {}
    cur = None
    for line in out.splitlines():
        line = line.strip()
        m = re.match(r'"?Q ([^\s"]+)"?$', line)
        if m:
            cur = m.group(1)
            res[cur] = [None, {}]
            continue
        if cur is None:
            continue
        if line in ("sat", "unsat", "unknown"):
            res[cur][0] = line
            continue
        for mm in re.finditer(r"\((\w+) (true|false)\)", line):
            res[cur][1][mm.group(1)] = mm.group(2) == "true"
    return res


# ---------------------------------------------------------------------------
# probe crate (rustc's verdict on the witness matrix)
# ---------------------------------------------------------------------------

MARKERS = {  # (send, sync, unpin) -> marker type
    (True, True, True): "()",
    (True, False, True): "core::cell::Cell<()>",
    (False, True, True): "std::sync::MutexGuard<'static, ()>",
    (False, False, True): "std::rc::Rc<()>",
    (True, True, False): "core::marker::PhantomPinned",
}

PROBE_PRELUDE = r'''
#![allow(dead_code, unused)]
use core::marker::PhantomData;
pub struct P<X: ?Sized>(PhantomData<X>);
pub trait Fallback { const SEND: bool = false; const SYNC: bool = false; const UNPIN: bool = false; }
impl<X: ?Sized> Fallback for P<X> {}
impl<X: ?Sized + Send> P<X> { pub const SEND: bool = true; }
impl<X: ?Sized + Sync> P<X> { pub const SYNC: bool = true; }
impl<X: ?Sized + Unpin> P<X> { pub const UNPIN: bool = true; }

// witness payload: auto traits exactly those of the marker K
pub struct WT<K>(u8, PhantomData<K>);
impl<K> Clone for WT<K> { fn clone(&self) -> Self { WT(self.0, PhantomData) } }
// witness lock type
pub struct WM<K>(PhantomData<K>);
unsafe impl<K> lock_api::RawMutex for WM<K> {
    const INIT: Self = WM(PhantomData);
    type GuardMarker = lock_api::GuardSend;
    fn lock(&self) {}
    fn try_lock(&self) -> bool { true }
    unsafe fn unlock(&self) {}
}
// witness ring buffer: auto traits those of K, independent of the item type
pub struct WA<T, K>(PhantomData<fn() -> T>, PhantomData<K>);
impl<T, K> futures_intrusive::buffer::RingBuf for WA<T, K> {
    type Item = T;
    fn new() -> Self { WA(PhantomData, PhantomData) }
    fn with_capacity(_c: usize) -> Self { WA(PhantomData, PhantomData) }
    fn capacity(&self) -> usize { 0 }
    fn len(&self) -> usize { 0 }
    fn can_push(&self) -> bool { false }
    fn push(&mut self, _i: T) { unimplemented!() }
    fn pop(&mut self) -> T { unimplemented!() }
}
'''


def combos_for(roles):
    """all witness assignments for the roles a type uses; M,T: 5 markers, A: send/!send (+pinned)"""
    dom = {"M": list(MARKERS.keys()), "T": list(MARKERS.keys()),
           "A": [(True, True, True), (False, False, True), (True, True, False)]}
    keys = [r for r in ("M", "T", "A") if r in roles]
    for vals in itertools.product(*[dom[k] for k in keys]):
        yield dict(zip(keys, vals))


def type_expr(pub, asg):
    m = "WM<%s>" % MARKERS[asg["M"]] if "M" in asg else None
    t = "WT<%s>" % MARKERS[asg.get("T", (True, True, True))]
    a = "WA<%s, %s>" % (t, MARKERS[asg["A"]]) if "A" in asg else None
    return pub.replace("{M}", m or "WM<()>").replace("{T}", t).replace("{A}", a or "WA<%s, ()>" % t)


def env_of(asg):
    env = {a: True for a in ATOMS}
    for role, (s, y, u) in asg.items():
        env["send_" + role], env["sync_" + role], env["unpin_" + role] = s, y, u
    return env


def write_probe(dirpath, lines_src):
    os.makedirs(os.path.join(dirpath, "src"), exist_ok=True)
    open(os.path.join(dirpath, "Cargo.toml"), "w").write('''[package]
name = "fi-c16-probe"
version = "0.0.0"
edition = "2021"
publish = false
[dependencies]
futures-intrusive = { path = "%s" }
lock_api = "0.4.1"
[workspace]
''' % REPO)
    shutil.copy(os.path.join(REPO, "Cargo.lock"), os.path.join(dirpath, "Cargo.lock"))
    open(os.path.join(dirpath, "src", "main.rs"), "w").write(PROBE_PRELUDE + "\nfn main() {\n" + lines_src + "}\n")


def run(prop, tier, seed):
    t0 = time.time()
    scratch = tempfile.mkdtemp(prefix="fi-verif-C16-", dir=os.environ.get("VERIF_SCRATCH", "/tmp"))
    try:
        return run_inner(prop, tier, seed, scratch, t0)
    except Inconclusive as e:
        print("INCONCLUSIVE property=C16 %s" % e)
        write_evidence(tier, seed, t0, status="inconclusive", note=str(e))
        return 2
    finally:
        if not os.environ.get("VERIF_KEEP"):
            shutil.rmtree(scratch, ignore_errors=True)
        else:
            print("scratch kept at", scratch)


def run_inner(prop, tier, seed, scratch, t0):
    # ---- 1. extraction (regenerated from /repo's working tree on every run) ----
    docdir = os.path.join(scratch, "doc")
    cmd = ["cargo", "+nightly", "rustdoc", "--offline", "--lib", "--target-dir", docdir, "--",
           "-Z", "unstable-options", "--output-format", "json", "--document-private-items"]
    p = subprocess.run(cmd, cwd=REPO, env=env_offline(), stdout=subprocess.PIPE, stderr=subprocess.STDOUT, timeout=900)
    jpath = os.path.join(docdir, "doc", "futures_intrusive.json")
    if p.returncode != 0 or not os.path.exists(jpath):
        raise Inconclusive("rustdoc JSON extraction failed: " + p.stdout.decode(errors="replace")[-400:])
    table = extract.extract(jpath)
    by_path = {}
    for k, e in table.items():
        by_path.setdefault(e["path"], []).append(e)
    print("  extracted impl table: %d structs (%.0fs)" % (len(table), time.time() - t0), flush=True)

    def find(path):
        es = by_path.get("futures_intrusive::" + path, [])
        if len(es) != 1:
            raise Inconclusive("type %s of the specification not found (or ambiguous) in the impl table" % path)
        return es[0]

    # ---- 2. encoding ----
    smt = ["(set-logic ALL)", "(set-option :produce-models true)"]
    for a in ATOMS:
        smt.append("(declare-const %s Bool)" % a)
    rows = []
    pyf = {}
    for row in spec.ROWS:
        ent = find(row["path"])
        nm = re.sub(r"\W", "_", row["path"])
        roles = [ROLE[p] for p in ent["params"] if p in ROLE]
        for tr in ("Send", "Sync", "Unpin"):
            f, fn, disj = impl_formula(ent, tr)
            smt.append("(define-fun %s_%s () Bool %s)" % (tr, nm, f))
            pyf[(row["path"], tr)] = (fn, disj)
        rows.append((row, ent, nm, roles))
    noop = find(spec.LOCAL_LOCK)
    noop_send = impl_formula(noop, "Send")[0]
    noop_sync = impl_formula(noop, "Sync")[0]

    queries = []  # (qid, kind, row path, trait, assertion, expected)

    def q(kind, path, trait, assertion):
        queries.append(("q%d" % len(queries), kind, path, trait, assertion))

    for row, ent, nm, roles in rows:
        if row.get("nec_send") is not None:
            q("NEC", row["path"], "Send", "(and Send_%s (not %s))" % (nm, row["nec_send"]))
        if row.get("nec_sync") is not None:
            q("NEC", row["path"], "Sync", "(and Sync_%s (not %s))" % (nm, row["nec_sync"]))
        if row.get("suf_send"):
            q("SUF", row["path"], "Send", "(and %s (not Send_%s))" % (spec.DOC, nm))
        if row.get("suf_sync"):
            q("SUF", row["path"], "Sync", "(and %s (not Sync_%s))" % (spec.DOC, nm))
        if "M" in roles:
            q("LOCAL", row["path"], "Send", "(and (= send_M %s) (= sync_M %s) Send_%s)" % (noop_send, noop_sync, nm))
            if row.get("nec_sync") and "sync_M" in row["nec_sync"]:
                q("LOCAL", row["path"], "Sync", "(and (= send_M %s) (= sync_M %s) Sync_%s)" % (noop_send, noop_sync, nm))
    # every Future / Stream implementor in the table (picked up automatically) must be !Unpin
    fut_types = []
    for k, e in sorted(table.items()):
        if set(e["traits"]) & {"Future", "Stream"}:
            nm = "U_" + re.sub(r"\W", "_", e["path"]) + "_%d" % e["id"]
            f, fn, disj = impl_formula(e, "Unpin")
            smt.append("(define-fun %s () Bool %s)" % (nm, f))
            q("UNPIN", e["path"].replace("futures_intrusive::", ""), "Unpin", nm)
            fut_types.append(e)
    # gated constructors of TimerFuture
    gated = check_gated(jpath)
    for i, (where, ok) in enumerate(gated):
        smt.append("(define-fun gated_%d () Bool %s)" % (i, "true" if ok else "false"))
        q("GATED", "timer::timer::TimerFuture", "ctor:" + where, "(not gated_%d)" % i)
    if not gated:
        raise Inconclusive("no function returning TimerFuture found in the impl table")

    script = list(smt)
    for (qid, kind, path, trait, assertion) in queries:
        script += ["(push 1)", '(echo "Q %s")' % qid, "(assert %s)" % assertion, "(check-sat)"]
        # models only needed for sat; ask always, tolerate the error-free 'unsat' case by a second pass
        script += ["(pop 1)"]
    text = "\n".join(script) + "\n"
    ts = time.time()
    out_z3 = run_solver(["z3", "-in"], text)
    t_z3 = time.time() - ts
    ts = time.time()
    out_cvc5 = run_solver(["cvc5", "--lang", "smt2", "--incremental"], text)
    t_cvc5 = time.time() - ts
    r_z3, r_cvc5 = parse_solver(out_z3), parse_solver(out_cvc5)
    verdicts = {}
    for (qid, kind, path, trait, assertion) in queries:
        a, b = r_z3.get(qid, [None])[0], r_cvc5.get(qid, [None])[0]
        if a not in ("sat", "unsat") or a != b:
            raise Inconclusive("solvers disagree or gave no verdict on %s %s %s: z3=%s cvc5=%s" % (kind, path, trait, a, b))
        verdicts[qid] = a
    # second pass: models for the satisfiable queries (z3)
    sat_q = [qq for qq in queries if verdicts[qq[0]] == "sat"]
    models = {}
    if sat_q:
        script = list(smt)
        for (qid, kind, path, trait, assertion) in sat_q:
            script += ["(push 1)", '(echo "Q %s")' % qid, "(assert %s)" % assertion, "(check-sat)",
                       "(get-value (%s))" % " ".join(ATOMS), "(pop 1)"]
        r = parse_solver(run_solver(["z3", "-in"], "\n".join(script) + "\n"))
        for qq in sat_q:
            models[qq[0]] = r[qq[0]][1]
    print("  %d queries: z3 %.2fs, cvc5 %.2fs, %d satisfiable" % (len(queries), t_z3, t_cvc5, len(sat_q)), flush=True)

    # ---- 3. rustc's verdict on the witness matrix (translator validation + replay) ----
    lines = []
    cases = []
    for row, ent, nm, roles in rows:
        for asg in combos_for(roles):
            ty = type_expr(row["pub"], asg)
            cid = len(cases)
            cases.append((row["path"], asg, ty))
            lines.append('    println!("CASE %d {} {} {}", <P<%s>>::SEND, <P<%s>>::SYNC, <P<%s>>::UNPIN);\n' % (cid, ty, ty, ty))
    pdir = os.path.join(scratch, "probe")
    write_probe(pdir, "".join(lines))
    ts = time.time()
    pr = subprocess.run(["cargo", "run", "--offline", "--quiet"], cwd=pdir, env=env_offline(),
                        stdout=subprocess.PIPE, stderr=subprocess.PIPE, timeout=1800)
    if pr.returncode != 0:
        raise Inconclusive("probe crate does not build against /repo: " + pr.stderr.decode(errors="replace")[-600:])
    t_probe = time.time() - ts
    rustc = {}
    for m in re.finditer(r"CASE (\d+) (true|false) (true|false) (true|false)", pr.stdout.decode()):
        rustc[int(m.group(1))] = tuple(x == "true" for x in m.groups()[1:])
    if len(rustc) != len(cases):
        raise Inconclusive("probe printed %d of %d cases" % (len(rustc), len(cases)))
    mismatches = []
    for cid, (path, asg, ty) in enumerate(cases):
        env = env_of(asg)
        for ti, tr in enumerate(("Send", "Sync", "Unpin")):
            pred = pyf[(path, tr)][0](env)
            if pred != rustc[cid][ti]:
                mismatches.append("%s: %s predicted %s, rustc says %s" % (ty, tr, pred, rustc[cid][ti]))
    print("  probe: %d witness instantiations x 3 traits decided by rustc in %.0fs, %d mismatches with the encoding" % (
        len(cases), t_probe, len(mismatches)), flush=True)
    if mismatches:
        raise Inconclusive("encoding disagrees with rustc on the witness matrix (translator invalid): " + "; ".join(mismatches[:3]))

    # ---- 4. verdicts ----
    known = load_known()
    violations, known_hits = [], []
    samples = []
    for (qid, kind, path, trait, assertion) in queries:
        if verdicts[qid] != "sat":
            continue
        model = models.get(qid, {})
        desc = describe(kind, path, trait, model)
        # replay: find the witness instantiation in the matrix that realises the model
        confirmed, ty = False, None
        if kind in ("NEC", "SUF", "LOCAL", "UNPIN"):
            for cid, (cpath, asg, cty) in enumerate(cases):
                if cpath != path and kind != "UNPIN":
                    continue
                if kind == "UNPIN" and not path.endswith(cpath.split("::")[-1]):
                    continue
                env = env_of(asg)
                if kind == "LOCAL" and (env["send_M"] or env["sync_M"]):
                    continue
                if kind != "LOCAL" and kind != "UNPIN" and any(model.get(a, env[a]) != env[a] for a in
                                                                ("send_M", "sync_M", "send_T", "sync_T", "send_A") if a[-1] in asg):
                    continue
                ti = ("Send", "Sync", "Unpin").index(trait)
                want = (kind != "SUF")  # soundness: rustc must ACCEPT; regression: rustc must REJECT
                if rustc[cid][ti] == want:
                    confirmed, ty = True, cty
                    break
        elif kind == "GATED":
            confirmed, ty = True, trait
        if not confirmed:
            raise Inconclusive("satisfiable query %s does not replay on the witness matrix" % desc)
        rpath = write_replay(kind, path, trait, model, ty, desc)
        kf = match_known(known, kind, path, trait)
        if kf:
            known_hits.append((kf, rpath))
        else:
            violations.append((desc, rpath))
    for (qid, kind, path, trait, assertion) in queries[:4]:
        samples.append({"query": "%s %s %s" % (kind, path, trait), "smt": assertion, "verdict": verdicts[qid]})
    samples.append({"witness_instantiation": cases[seed % len(cases)][2], "rustc_send_sync_unpin": rustc[seed % len(cases)]})

    for kf, rp in known_hits:
        print("KNOWN-FINDING: property=C16 %s (replay=%s)" % (kf["what"], rp))
    status, rc = "held", 0
    if violations:
        for desc, rp in violations:
            print("  violated: " + desc)
            print("VIOLATION property=C16 replay=%s" % rp)
        status, rc = "violated", 1
    nontrivial = len(set((k, pth, tr) for (_, k, pth, tr, _) in queries))
    write_evidence(tier, seed, t0, status=status, queries=queries, verdicts=verdicts, samples=samples,
                   cases=len(cases), t_z3=t_z3, t_cvc5=t_cvc5, t_probe=t_probe, nviol=len(violations),
                   nontrivial=nontrivial, future_types=[e["path"] for e in fut_types],
                   known=[k["id"] for k, _ in known_hits], gated=gated)
    print("RESULT property=C16 tier=%s status=%s wall=%.0fs" % (tier, status, time.time() - t0))
    return rc


def check_gated(jpath):
    """every function that returns timer::TimerFuture sits in an impl whose Self type's parameters are bound by Sync"""
    d = json.load(open(jpath))
    idx = d["index"]
    tf = [v["id"] for v in idx.values() if v.get("name") == "TimerFuture" and "struct" in v.get("inner", {})]
    if len(tf) != 1:
        return []
    tf = tf[0]
    out = []
    for k, v in idx.items():
        imp = v.get("inner", {}).get("impl")
        if not imp or v.get("crate_id") != 0:
            continue
        for iid in imp["items"]:
            it = idx.get(str(iid))
            if not it or "function" not in it.get("inner", {}):
                continue
            outp = it["inner"]["function"]["sig"].get("output")
            if not outp or (outp.get("resolved_path") or {}).get("id") != tf:
                continue
            atoms = []
            unknown = []
            for g in imp["generics"]["params"]:
                if "type" in g["kind"]:
                    atoms += extract.bound_atoms(g["kind"]["type"]["bounds"], g["name"], unknown)
            for wp in imp["generics"]["where_predicates"]:
                bp = wp.get("bound_predicate")
                if bp and "generic" in bp["type"]:
                    atoms += extract.bound_atoms(bp["bounds"], bp["type"]["generic"], unknown)
            tparams = [g["name"] for g in imp["generics"]["params"] if "type" in g["kind"]]
            ok = bool(tparams) and all((tp, "Sync") in atoms for tp in tparams)
            forty = extract.type_str(imp["for"])
            out.append(("%s::%s" % (forty, it["name"]), ok))
    return out


def describe(kind, path, trait, model):
    asg = ", ".join("%s=%s" % (a, str(model[a]).lower()) for a in ("send_M", "sync_M", "send_T", "sync_T", "send_A") if a in model)
    if kind == "NEC":
        return "C16 %s is %s although what it exposes to the other thread does not tolerate that (%s)" % (path, trait, asg)
    if kind == "SUF":
        return "C16 %s is no longer %s for a thread-safe lock and Send payload/buffer (%s)" % (path, trait, asg)
    if kind == "LOCAL":
        return "C16 local flavour of %s (lock type NoopLock) is %s" % (path, trait)
    if kind == "UNPIN":
        return "C16 future/stream type %s is Unpin" % path
    return "C16 %s: constructor %s is not gated by a Sync bound on the lock type" % (path, trait)


def write_replay(kind, path, trait, model, ty, desc):
    d = os.path.join(VERIF, "out", "replays")
    os.makedirs(d, exist_ok=True)
    h = hashlib.sha1((kind + path + trait + str(ty)).encode()).hexdigest()[:10]
    rp = os.path.join(d, "C16-%s-%s.json" % (kind, h))
    fn = {"Send": "assert_send", "Sync": "assert_sync", "Unpin": "assert_unpin"}.get(trait, "assert_send")
    must = "compile" if kind != "SUF" else "be rejected"
    src = PROBE_PRELUDE + "\nfn assert_send<X: ?Sized + Send>() {}\nfn assert_sync<X: ?Sized + Sync>() {}\nfn assert_unpin<X: ?Sized + Unpin>() {}\n" + \
        "fn main() { %s::<%s>(); }\n" % (fn, ty)
    json.dump({"property": "C16", "kind": "c16", "query": kind, "type": path, "trait": trait, "model": model,
               "witness_type": ty, "oracle": desc, "probe_must": must, "probe_main_rs": src,
               "replay_cmd": "python3 %s/check.py --replay %s" % (VERIF, rp)}, open(rp, "w"), indent=1)
    return rp


def replay_file(doc):
    scratch = tempfile.mkdtemp(prefix="fi-verif-C16r-", dir=os.environ.get("VERIF_SCRATCH", "/tmp"))
    try:
        if doc["query"] == "GATED":
            print("GATED finding: inspect %s in /repo/src/timer/timer.rs" % doc["trait"])
            return 1
        pdir = os.path.join(scratch, "probe")
        write_probe(pdir, "")
        open(os.path.join(pdir, "src", "main.rs"), "w").write(doc["probe_main_rs"])
        pr = subprocess.run(["cargo", "check", "--offline", "--quiet"], cwd=pdir, env=env_offline(),
                            stdout=subprocess.PIPE, stderr=subprocess.STDOUT, timeout=1800)
        accepted = pr.returncode == 0
        print("probe for `%s: %s` %s by rustc (the finding needs it to %s)" % (
            doc["witness_type"], doc["trait"], "ACCEPTED" if accepted else "REJECTED", doc["probe_must"]))
        reproduced = accepted == (doc["probe_must"] == "compile")
        return 1 if reproduced else 0
    finally:
        shutil.rmtree(scratch, ignore_errors=True)


def load_known():
    p = os.path.join(VERIF, "known_findings.json")
    if not os.path.exists(p):
        return []
    return [k for k in json.load(open(p)).get("findings", []) if k.get("property") == "C16" and k.get("status") == "known"]


def match_known(known, kind, path, trait):
    for k in known:
        r = k.get("role", {})
        if r.get("query") == kind and r.get("type") == path and r.get("trait") == trait:
            return k
    return None


def write_evidence(tier, seed, t0, status, queries=(), verdicts=None, samples=None, cases=0, t_z3=0, t_cvc5=0,
                   t_probe=0, nviol=0, nontrivial=0, future_types=(), known=(), note="", gated=()):
    verdicts = verdicts or {}
    ev = {
        "property_id": "C16", "tier": tier, "seed": seed, "level": "model_checking",
        "coverage": {
            "evaluations": len(queries) * 2 + cases * 3,
            "distinct_nontrivial": nontrivial,
            "rule": "evaluations = SMT queries decided (each by z3 AND cvc5) + (witness instantiation, trait) pairs decided by "
                    "rustc for the translator validation; distinct_nontrivial = distinct (query kind, type, trait) obligations",
            "samples": samples or [{"note": note or "no query ran"}],
            "traces_validated_against_impl": cases * 3,
            "obligations": len(queries),
            "discharged": sum(1 for qq in queries if verdicts.get(qq[0]) == "unsat"),
            "exhaustive": True,
            "status": status,
            "explanation": "all assignments of the trait atoms (send/sync/unpin of lock, payload and buffer type) are covered by "
                           "each query; the formulas are regenerated from rustc's impl table of the current tree",
            "functions_encoded": ["every Send/Sync/Unpin impl (explicit and rustc-synthesised) of the public structs listed in c16/spec.py",
                                  "impl Timer for GenericTimerService (where-clauses)", "NoopLock"],
            "future_and_stream_types_checked_for_not_Unpin": list(future_types),
            "gated_constructors": [list(g) for g in gated],
            "bounds": "none over the atoms (all 2^9 assignments per query); fragment: impl clauses that are conjunctions of "
                      "Param: Send|Sync|Unpin (anything else makes the run inconclusive); witness matrix: 5 marker types for "
                      "lock and payload, 3 for the buffer",
            "solver_time_s": {"z3": round(t_z3, 2), "cvc5": round(t_cvc5, 2), "rustc_probe": round(t_probe, 1)},
            "known_findings_hit": list(known),
            "checker_cmd": "z3 -in ; cvc5 --lang smt2 --incremental ; cargo run (probe crate)",
            "trusted_base": ["rustdoc JSON of nightly rustc (impl table incl. synthetic auto-trait impls)", "z3 4.8.12", "cvc5 1.0",
                             "rustc trait solver (replay)", "the exposure rows in /verif/c16/spec.py"],
            "note": note,
        },
        "assumptions": ["unsafe user code and lock types that are Sync but not Send are outside the claim",
                        "the hand-written exposure rows in c16/spec.py are the specification",
                        "bounds other than Send/Sync/Unpin (RawMutex, RingBuf, Clone) are satisfied by every witness and encoded as true"],
        "wall_s": round(time.time() - t0, 1),
        "violations": nviol,
    }
    evdir = os.path.join(VERIF, "evidence") if os.path.realpath(REPO) == "/repo" else os.path.join(VERIF, "out", "evidence-other-tree")
    os.makedirs(evdir, exist_ok=True)
    json.dump(ev, open(os.path.join(evdir, "C16.json"), "w"), indent=1)


if __name__ == "__main__":
    sys.exit(run("C16", os.environ.get("VERIF_TIER", "quick"), int(os.environ.get("VERIF_SEED", "0") or 0)))

#!/usr/bin/env python3
"""Extracts the Send/Sync/Unpin impl table (incl. rustc-synthesised auto-trait impls) and the
Future/Stream implementors from rustdoc JSON of /repo."""
import json, sys

AUTO = ("Send", "Sync", "Unpin")


def bound_atoms(bounds, subject, unknown):
    out = []
    for b in bounds:
        if "trait_bound" in b:
            tb = b["trait_bound"]
            name = tb["trait"]["path"].split("::")[-1]
            if tb.get("modifier", "none") != "none":
                if name == "Sized":
                    continue
                unknown.append("modifier %s on %s" % (tb.get("modifier"), name))
                continue
            out.append((subject, name))
        elif "outlives" in b:
            continue
        else:
            unknown.append("bound %r" % (b,))
    return out


def type_str(t):
    if "generic" in t:
        return t["generic"]
    if "resolved_path" in t:
        rp = t["resolved_path"]
        args = rp.get("args") or {}
        inner = []
        for a in (args.get("angle_bracketed") or {}).get("args", []):
            if "type" in a:
                inner.append(type_str(a["type"]))
            elif "lifetime" in a:
                inner.append(a["lifetime"])
        return rp["path"] + ("<" + ",".join(inner) + ">" if inner else "")
    if "borrowed_ref" in t:
        return "&" + type_str(t["borrowed_ref"]["type"])
    if "dyn_trait" in t:
        return "dyn " + "+".join(x["trait"]["path"] for x in t["dyn_trait"]["traits"])
    if "raw_pointer" in t:
        return "*" + type_str(t["raw_pointer"]["type"])
    if "array" in t:
        return "[" + type_str(t["array"]["type"]) + ";N]"
    if "tuple" in t:
        return "(" + ",".join(type_str(x) for x in t["tuple"]) + ")"
    return json.dumps(t)[:60]


def extract(path):
    d = json.load(open(path))
    idx = d["index"]
    paths = d["paths"]
    table = {}
    for k, v in idx.items():
        inner = v.get("inner", {})
        if "struct" not in inner or v.get("crate_id") != 0:
            continue
        st = inner["struct"]
        name = v["name"]
        p = paths.get(k) or paths.get(str(k))
        full = "::".join(p["path"]) if p else name
        params = [g["name"] for g in st["generics"]["params"] if "type" in g["kind"]]
        ent = {"name": name, "path": full, "id": v["id"], "visibility": v.get("visibility"), "params": params,
               "span": v.get("span", {}).get("filename"), "impls": {t: [] for t in AUTO}, "traits": [], "unknown": []}
        for iid in st["impls"]:
            it = idx.get(str(iid))
            if it is None:
                continue
            imp = it["inner"]["impl"]
            tr = imp.get("trait")
            if not tr:
                continue
            tname = tr["path"].split("::")[-1]
            if imp.get("blanket_impl") is not None:
                continue
            if tname not in AUTO:
                ent["traits"].append(tname)
                continue
            unknown = []
            atoms = []
            # the impl's own generic parameter names map positionally onto the struct's
            fargs = (((imp["for"].get("resolved_path") or {}).get("args") or {}).get("angle_bracketed") or {}).get("args", [])
            ren = {}
            pos = 0
            for a in fargs:
                if "type" in a:
                    if "generic" in a["type"]:
                        if pos < len(params):
                            ren[a["type"]["generic"]] = params[pos]
                    else:
                        unknown.append("impl for a non-generic instantiation: %s" % type_str(a["type"]))
                    pos += 1
            for g in imp["generics"]["params"]:
                if "type" in g["kind"]:
                    atoms += bound_atoms(g["kind"]["type"]["bounds"], ren.get(g["name"], g["name"]), unknown)
            for wp in imp["generics"]["where_predicates"]:
                if "bound_predicate" in wp:
                    bp = wp["bound_predicate"]
                    ty = bp["type"]
                    if "generic" in ty:
                        atoms += bound_atoms(bp["bounds"], ren.get(ty["generic"], ty["generic"]), unknown)
                    else:
                        for b in bp["bounds"]:
                            if "trait_bound" in b:
                                atoms.append((type_str(ty), b["trait_bound"]["trait"]["path"].split("::")[-1]))
                elif "lifetime_predicate" in wp or "region_predicate" in wp:
                    continue
                else:
                    unknown.append("where %r" % (wp,))
            ent["impls"][tname].append({"negative": imp["is_negative"], "synthetic": imp["is_synthetic"],
                                        "atoms": sorted(set(atoms)), "unknown": unknown})
        table[full + "#" + str(v["id"])] = ent
    return table


if __name__ == "__main__":
    t = extract(sys.argv[1])
    for k in sorted(t):
        e = t[k]
        if e["visibility"] != "public":
            continue
        print(k, e["params"], "traits:", sorted(set(e["traits"]) & {"Future", "Stream", "FusedFuture", "FusedStream", "Drop", "Clone"}))
        for tr in AUTO:
            for i in e["impls"][tr]:
                print("    %s%s %s %s %s" % ("!" if i["negative"] else " ", tr, "synthetic" if i["synthetic"] else "explicit ",
                                             [a for a in i["atoms"]], i["unknown"] or ""))

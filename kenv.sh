# dev helper: source this, then `kk <args>` runs cargo kani on /repo with hooks on
export RUSTFLAGS="--cfg futures_intrusive_verif" FI_VERIF_INC=/verif/harness/inc CARGO_NET_OFFLINE=true
kk() { (cd /repo && cargo kani --target-dir /var/tmp/fi-dev/target "$@"); }

#!/bin/bash
# runs the quick (or $1) tier of every claimed property sequentially; summary at the end
tier=${1:-quick}
shift
props=${@:-C16 C19 C14 C12 C02 C03 C04 C13 C20 C11 C07 C05 C06 C15 C08 C09 C10 C17 C18 C01}
mkdir -p out
for p in $props; do
  s=$(date +%s)
  python3 check.py $p --tier $tier > out/$p.$tier.log 2>&1
  rc=$?
  echo "$p exit=$rc wall=$(( $(date +%s) - s ))s $(grep -E '^RESULT|^VIOLATION|^INCONCLUSIVE' out/$p.$tier.log | head -3 | tr '\n' ' ')"
done

#!/usr/bin/env python3
"""MANIFEST.setup_cmd: offline sanity check + warm the native replayer build (files on disk only)."""
import os, subprocess, sys
env = dict(os.environ, RUSTFLAGS="--cfg futures_intrusive_verif", FI_VERIF_INC="/verif/harness/inc", CARGO_NET_OFFLINE="true")
for tool in (["cargo", "kani", "--version"], ["z3", "--version"], ["cvc5", "--version"]):
    r = subprocess.run(tool, capture_output=True, text=True)
    print(" ".join(tool), "->", (r.stdout or r.stderr).splitlines()[0] if (r.stdout or r.stderr) else r.returncode)
r = subprocess.run(["cargo", "build", "--offline"], cwd="/verif/replay", env=env)
sys.exit(r.returncode)

#!/bin/bash
# round 5: re-confirms each seeded change in its scratch worktree: suite passes with it, demo fails with it, demo passes without it
export CARGO_NET_OFFLINE=true
for d in ${SEEDS:-/verif/seeded/*-5}; do
  id=$(basename $d); p=${id%%-*}; wt=/tmp/m5-$p
  cd $wt || continue
  extra=""; [ "$p" = "C18" ] && extra="-- --test-threads=1"
  if [ "$p" = "C20" ]; then
    demo="--lib seeded_demo"
    cp src/lib.rs /tmp/lib_rs_$p.bak; sed -i '/^#\[cfg(test)\]$/{N;/mod seeded_demo;/d}' src/lib.rs
    suite=$(cargo test --workspace --no-fail-fast --offline 2>&1 | grep -E "^test result" | grep -c FAILED)
    cp /tmp/lib_rs_$p.bak src/lib.rs
  else
    demo="--test seeded_demo"
    mv tests/seeded_demo.rs /tmp/seeded_demo5_$p.rs
    suite=$(cargo test --workspace --no-fail-fast --offline 2>&1 | grep -E "^test result" | grep -c FAILED)
    npass=$(cargo test --workspace --no-fail-fast --offline 2>&1 | grep -E "^test result" | sed -E 's/.* ([0-9]+) passed.*/\1/' | paste -sd+ | bc)
    mv /tmp/seeded_demo5_$p.rs tests/seeded_demo.rs
  fi
  cargo test --offline $demo $extra > /tmp/demo5_with_$p.log 2>&1; with=$?
  git apply -R $d/patch.diff
  cargo test --offline $demo $extra > /tmp/demo5_without_$p.log 2>&1; without=$?
  git apply $d/patch.diff
  echo "$id suite_failed_targets=$suite passed=$npass demo_with_change_exit=$with demo_without_change_exit=$without"
done

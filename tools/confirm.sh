#!/bin/bash
# re-confirms each seeded change in its scratch worktree: suite passes with it, demo fails with it, demo passes without it
export CARGO_NET_OFFLINE=true
for d in /verif/seeded/*-1; do
  id=$(basename $d); p=${id%%-*}; wt=/tmp/mut-$p
  cd $wt || continue
  if [ "$p" = "C20" ]; then demo="--lib seeded_demo"; else demo="--test seeded_demo"; fi
  extra=""; [ "$p" = "C18" ] && extra="-- --test-threads=1"
  # 1. existing suite with the change (exclude the demo target)
  if [ "$p" = "C20" ]; then
    suite=$(cargo test --workspace --no-fail-fast --offline 2>&1 | grep -E "^test result" | grep -v "11 passed; 2 failed" | grep -c FAILED)
  else
    mv tests/seeded_demo.rs /tmp/seeded_demo_$p.rs
    suite=$(cargo test --workspace --no-fail-fast --offline 2>&1 | grep -E "^test result" | grep -c FAILED)
    mv /tmp/seeded_demo_$p.rs tests/seeded_demo.rs
  fi
  # 2. demo with the change
  cargo test --offline $demo $extra > /tmp/demo_with_$p.log 2>&1; with=$?
  # 3. demo without the change
  git apply -R $d/patch.diff
  cargo test --offline $demo $extra > /tmp/demo_without_$p.log 2>&1; without=$?
  git apply $d/patch.diff
  echo "$id suite_failed_targets=$suite demo_with_change_exit=$with demo_without_change_exit=$without"
done
